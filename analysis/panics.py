"""A5: panic edges and attacker-sized allocations inside a region of functions."""
import re

from facts import callee_decl, callee_name, op_place
from flow import tracer, switch_cond

LOG_MACROS = {"log", "debug", "trace", "warn", "error", "info", "$crate::log", "log::log", "format_args",
              "$crate::format_args", "$crate::__log", "__log", "log_enabled", "$crate::log_enabled"}

MAY_PANIC = [
    (r"^core::option::Option::<.*>::(unwrap|expect)$", "Option::unwrap/expect"),
    (r"^core::result::Result::<.*>::(unwrap|expect|unwrap_err|expect_err)$", "Result::unwrap/expect"),
    (r"^core::ops::(index::)?(Index|IndexMut)::(index|index_mut)$", "indexing"),
    (r"^alloc::vec::Vec::<.*>::(remove|insert|swap_remove|split_off)$", "Vec positional op"),
    (r"^alloc::collections::vec_deque::VecDeque::<.*>::(range|range_mut|insert|split_off|swap)$", "VecDeque positional op"),
    (r"^core::slice::<impl \[T\]>::(split_at|split_at_mut|copy_from_slice|clone_from_slice|swap|copy_within|rotate_left|rotate_right|chunks|chunks_exact|windows|first_chunk_unchecked)$", "slice positional op"),
    (r"^bytes::bytes::Bytes::(split_to|split_off|slice|slice_ref)$", "Bytes positional op"),
    (r"^bytes::bytes_mut::BytesMut::(split_to|split_off)$", "BytesMut positional op"),
    (r"^bytes::buf::buf_impl::Buf::(advance|copy_to_slice|copy_to_bytes|get_[a-z0-9_]+)$", "panicking Buf accessor"),
    (r"^bevy_ecs::entity::Entity::from_bits$", "Entity::from_bits"),
    (r"^core::cell::RefCell::<.*>::(borrow|borrow_mut)$", "RefCell borrow"),
    (r"^<core::time::Duration as core::ops::(arith::)?(Add|Sub|Mul|Div|AddAssign|SubAssign)(<.*>)?>::", "Duration arithmetic"),
    (r"^<std::time::Instant as core::ops::(arith::)?(Add|Sub|AddAssign|SubAssign)(<.*>)?>::", "Instant arithmetic"),
    (r"^bevy_ecs::world::World::(resource|resource_mut|resource_ref|entity|entity_mut|non_send_resource|non_send_resource_mut|resource_scope|run_system_cached|run_system)$", "World accessor that panics when absent"),
    (r"^bevy_ecs::world::(unsafe_world_cell::|deferred_world::)?[A-Za-z]+::(resource|resource_mut|entity|entity_mut)$", "world accessor that panics when absent"),
    (r"^bevy_ecs::system::(query::)?Query::<.*>::(single_inner_unchecked)$", "query accessor"),
    (r"^core::iter::(traits::iterator::)?Iterator::(step_by)$", "step_by(0)"),
    (r"^core::num::<impl [iu0-9size]+>::(pow|abs|div_euclid|rem_euclid|ilog|ilog2|ilog10|next_power_of_two|strict_[a-z_]+)$", "overflowing integer helper"),
    (r"^core::char::(methods::)?<impl char>::from_digit$", "from_digit radix"),
]
MAY_PANIC = [(re.compile(p), w) for p, w in MAY_PANIC]

ALLOC_SIZED = [
    (r"^alloc::vec::Vec::<.*>::(with_capacity|with_capacity_in)$", 0),
    (r"^alloc::vec::Vec::<.*>::(reserve|reserve_exact|resize|resize_with)$", 1),
    (r"^alloc::string::String::with_capacity$", 0),
    (r"^alloc::string::String::(reserve|reserve_exact)$", 1),
    (r"^alloc::vec::from_elem$", 1),
    (r"^alloc::collections::vec_deque::VecDeque::<.*>::with_capacity$", 0),
    (r"^alloc::collections::vec_deque::VecDeque::<.*>::(reserve|resize)$", 1),
    (r"^bytes::bytes_mut::BytesMut::with_capacity$", 0),
    (r"^bytes::bytes_mut::BytesMut::(reserve|resize)$", 1),
    (r"^(std|hashbrown|bevy_platform)::.*Hash(Map|Set)<?.*>?::(with_capacity|with_capacity_and_hasher)$", 0),
    (r"^(std|hashbrown|bevy_platform)::.*Hash(Map|Set)<?.*>?::reserve$", 1),
    (r"^alloc::str::<impl str>::repeat$", 1),
    (r"^alloc::slice::<impl \[T\]>::repeat$", 1),
    (r"^core::iter::sources::repeat_n::repeat_n$", 1),
]
ALLOC_SIZED = [(re.compile(p), i) for p, i in ALLOC_SIZED]

SIZE_BOUND_CALLS = re.compile(r"::(len|remaining|size_hint|capacity|count)$")
MIN_CALLS = ("core::cmp::Ord::min", "core::cmp::min", "core::cmp::Ord::clamp")


COUNT_GUARDABLE = {"panicking Buf accessor", "Bytes positional op", "BytesMut positional op", "slice positional op"}


def count_is_guarded(body, bb, count_op):
    """`count_op` is bounded by the available length on every path to bb: a dominating, non-debug
    comparison `count <= len/remaining` (any normal form) whose other outcome does not reach bb."""
    from flow import required_outcomes, cmp_facts
    tr = tracer(body)
    want = tr.operand(count_op)
    for (sbb, cond, outs) in required_outcomes(None, body, bb):
        if cond["kind"] != "cmp" or len(outs) != 1:
            continue
        out = next(iter(outs))
        if out not in (True, False):
            continue
        rel, a, b = cmp_facts(cond, out)
        if rel in ("<=", "<") and tr.operand(a) == want and _is_len_like(body, b):
            return True
    return False


def in_log_macro(node):
    ms = node.get("macros") or []
    return any(m in LOG_MACROS or m.startswith("log::") for m in ms)


def _const_operand(body, op, depth=0):
    """Operand computed from constants only."""
    if op.get("k") == "const":
        return True
    if depth > 6:
        return False
    tr = tracer(body)
    origins = tr.operand(op)
    for o in origins:
        if o.kind == "const":
            continue
        if o.kind == "stmt" and not o.path:
            s = body.blocks[o.data[0]].stmts[o.data[1]]
            rv = s["rvalue"]
            if rv["rv"] == "bin" and _const_operand(body, rv["a"], depth + 1) and _const_operand(body, rv["b"], depth + 1):
                continue
            if rv["rv"] == "un" and _const_operand(body, rv["a"], depth + 1):
                continue
            if rv["rv"] == "cast" and _const_operand(body, rv["op"], depth + 1):
                continue
        return False
    return True


def panic_edges(body, blocks=None):
    """Yields dicts describing the panic edges in `body` (restricted to `blocks` if given)."""
    for b in body.blocks:
        if b.cleanup or b.idx not in body.reach:
            continue
        if blocks is not None and b.idx not in blocks:
            continue
        t = b.term
        if in_log_macro(t):
            continue
        k = t["t"]
        if k == "assert":
            # constant-foldable condition => cannot fail
            if _const_operand(body, t["cond"]):
                continue
            kind = t["kind"]
            if kind.startswith("Overflow:Sh") and len(t["ops"]) == 2 and _const_operand(body, t["ops"][1]):
                # shift by a constant: rustc rejects out-of-range literal shifts at compile time
                continue
            if kind in ("MisalignedPointerDereference", "NullPointerDereference"):
                continue
            yield {"bb": b.idx, "kind": "assert", "what": kind, "span": t.get("span"), "macros": t.get("macros", [])}
        elif k in ("call", "tailcall"):
            name = callee_name(t)
            decl = callee_decl(t)
            if t.get("target") is None and k == "call":
                yield {"bb": b.idx, "kind": "diverge", "what": decl or name, "span": t.get("span"), "macros": t.get("macros", [])}
                continue
            for rx, what in MAY_PANIC:
                if rx.match(decl) or rx.match(name):
                    if what in COUNT_GUARDABLE and len(t["args"]) == 2 and count_is_guarded(body, b.idx, t["args"][1]):
                        break
                    yield {"bb": b.idx, "kind": "may-panic-api", "what": decl, "why": what, "span": t.get("span"),
                           "macros": t.get("macros", [])}
                    break
            else:
                if decl.endswith("::drain") and ("Vec" in decl or "VecDeque" in decl or "String" in decl):
                    # drain(range): panics unless the range is `..`
                    full = False
                    if len(t["args"]) >= 2:
                        a = t["args"][1]
                        ty = a.get("ty") if a.get("k") == "const" else body.locals[op_place(a)["l"]]["ty"] if op_place(a) else ""
                        full = "RangeFull" in (ty or "")
                    if not full:
                        yield {"bb": b.idx, "kind": "may-panic-api", "what": decl, "why": "drain(range)", "span": t.get("span"),
                               "macros": t.get("macros", [])}


def sized_allocations(body, blocks=None):
    """Yields (bb, callee, size_operand) for allocation calls whose size is an argument."""
    for bb, t in body.calls():
        if blocks is not None and bb not in blocks:
            continue
        if in_log_macro(t):
            continue
        decl = callee_decl(t)
        name = callee_name(t)
        for rx, idx in ALLOC_SIZED:
            if rx.match(decl) or rx.match(name):
                if idx < len(t["args"]):
                    yield bb, decl, t["args"][idx]
                break


def size_is_bounded(body, op, depth=0):
    """The allocation size is a constant, a length/remaining of existing data, or min(_, such)."""
    tr = tracer(body)
    for o in tr.operand(op):
        if o.kind == "const":
            continue
        if o.kind == "call":
            ct = body.blocks[o.data].term
            decl = callee_decl(ct)
            if SIZE_BOUND_CALLS.search(decl):
                continue
            if decl in MIN_CALLS or callee_name(ct) in MIN_CALLS:
                if any(_is_len_like(body, a) for a in ct["args"]):
                    continue
            return False
        if o.kind == "stmt" and depth < 4:
            s = body.blocks[o.data[0]].stmts[o.data[1]]
            rv = s["rvalue"]
            if rv["rv"] == "bin" and rv["op"] in ("Add", "AddWithOverflow", "Mul", "MulWithOverflow", "Sub", "SubWithOverflow"):
                if size_is_bounded(body, rv["a"], depth + 1) and size_is_bounded(body, rv["b"], depth + 1):
                    continue
            return False
        return False
    return True


def _is_len_like(body, op):
    tr = tracer(body)
    origins = tr.operand(op)
    if not origins:
        return False
    for o in origins:
        if o.kind == "const":
            continue
        if o.kind == "call" and SIZE_BOUND_CALLS.search(callee_decl(body.blocks[o.data].term)):
            continue
        return False
    return True


def close_region(F, entries, other_ctx=(), is_test=lambda p: False):
    """entries: list of (body, source_bb or None, kind). Returns path -> (blocks or None, how): the part of
    each entry dominated by its source call plus, transitively, the whole body of everything callable from there."""
    from callgraph import callgraph
    from flow import short
    cg = callgraph(F)
    region = {}
    work = []

    def add(path, how):
        if path not in region and path in F.fns and not is_test(path) and F.fns[path].kind in ("Fn", "AssocFn", "Closure"):
            region[path] = (None, how)
            work.append(path)

    for body, bb, kind in entries:
        if bb is None:
            blocks = None
        else:
            blocks = {b.idx for b in body.blocks if b.idx in body.reach and body.dominates(bb, b.idx) and b.idx != bb}
        region[body.path] = (blocks, "entry:" + kind)
        work.append(body.path)
    while work:
        p = work.pop()
        body = F.fns[p]
        blocks = region[p][0]
        for bb, kind, targets in cg.callees(body):
            if blocks is not None and bb not in blocks:
                continue
            if in_log_macro(body.blocks[bb].term):
                continue
            for t in targets:
                tb = F.fns.get(t)
                if tb is None:
                    continue
                if kind == "indirect" and other_ctx:
                    ins = tb.j.get("inputs", [])
                    if any(any(c in i for c in other_ctx) for i in ins):
                        continue
                add(t, "%s from %s" % (kind, short(p)))
        # call-backs: local impls of external traits for ADTs built here; Deserialize impls of local
        # types named in generic arguments
        for bb, i, s in body.statements():
            if blocks is not None and bb not in blocks:
                continue
            if s["s"] == "assign" and s["rvalue"]["rv"] == "agg" and s["rvalue"]["kind"] == "adt":
                adt = s["rvalue"]["adt"]
                if adt in F.adts:
                    for imp in F.impls:
                        tr = imp.get("trait") or ""
                        if imp.get("self_adt") == adt and tr and not tr.startswith("bevy_replicon") \
                                and not tr.startswith("core::") and not tr.startswith("bevy_"):
                            for it in imp["items"]:
                                add(it, "callback impl %s for %s" % (short(tr), short(adt)))
        for bb, t in body.calls():
            if blocks is not None and bb not in blocks:
                continue
            for a in t.get("callee", {}).get("args", []):
                base = a.split("<")[0]
                if base in F.adts:
                    for imp in F.impls:
                        if imp.get("self_adt") == base and (imp.get("trait") or "").startswith("serde_core::de::Deserialize"):
                            for it in imp["items"]:
                                add(it, "serde callback for %s" % short(base))
    return region
