#!/usr/bin/env python3
"""Regenerates MANIFEST.json from the rule modules present under analysis/rules."""
import importlib, json, os, sys
HERE = os.path.dirname(os.path.abspath(__file__))
VERIF = os.path.dirname(HERE)
sys.path.insert(0, os.path.join(VERIF, "analysis"))
props = [json.loads(l) for l in open(os.path.join(VERIF, "properties.jsonl"))]
checks, na = [], []
claimed = []
for p in props:
    pid = p["id"]
    try:
        mod = importlib.import_module("rules." + pid)
    except ModuleNotFoundError:
        na.append({"property_id": pid, "reason": "static rules designed (DESIGN.md section 4) but not implemented yet; nothing is substituted for them"})
        continue
    if getattr(mod, "NOT_APPLICABLE", None):
        na.append({"property_id": pid, "reason": mod.NOT_APPLICABLE})
        continue
    claimed.append(pid)
    rules = "; ".join("%s %s" % (r[0], r[1]) for r in mod.RULES)
    checks.append({
        "property_id": pid,
        "quick_cmd": "bin/check %s --tier quick" % pid,
        "thorough_cmd": "bin/check %s --tier thorough" % pid,
        "evidence_file": "/verif/evidence/%s.json" % pid,
        "replay_cmd_template": "bin/check %s --replay {path}" % pid,
        "engine": "static-facts",
        "level_claimed": {
            "category": "other",
            "text": "Static analysis of /repo's type-checked MIR (no execution). Decides, for every path / call site / writer in the "
                    "current source, these structural clauses of the property: " + rules + ". NOT decided (no sound static argument in "
                    "reach; nothing substituted): " + mod.NOT_DECIDED + ". A pass means the named mechanisms are wired as the property "
                    "needs, not that the whole behaviour holds.",
            "design_ref": "DESIGN.md section 4, " + pid,
        },
        "level_note": "Trusted base: rustc nightly MIR construction; the fact extractor (verif/driver); dependency contracts ("
                      + "; ".join(getattr(mod, "TRUSTED_BASE", [])) + "). Assumptions: " + ("; ".join(getattr(mod, "ASSUMPTIONS", [])) or "none") + ".",
        "technique": getattr(mod, "TECHNIQUE", "custom MIR-level static analysis (rustc_private fact extractor + dataflow/dominance/call-graph rules)"),
    })
m = {
    "version": 1,
    "setup_cmd": "bin/setup",
    "hooks": {"guard": "replicon_verif", "enable": "none needed: static analysis reads /repo's source; no hooks are compiled into /repo",
              "baseline_off_cmd": "cd /repo && cargo test --workspace --no-fail-fast --offline", "source_commits": [], "add_only": True},
    "engines": [{"name": "static-facts", "path": "/verif/analysis (rules) + /verif/driver (rustc_private fact extractor)",
                 "serves_properties": claimed,
                 "kind_free_text": "rustc_private driver dumps MIR/type/impl facts of the two workspace crates under cargo +nightly check; "
                                   "Python rule engine (CFG, dominators, value flow, guards, call graph with fn-pointer slots, taint regions) decides per-property rules"}],
    "checks": checks,
    "notes": "All checks are static: they rebuild facts from /repo's working tree (content-hashed cache) and never run the library or its tests. "
             "Exit 0 = every rule instance holds (known findings printed as KNOWN-FINDING); exit 1 + VIOLATION lines otherwise; exit 2 + CHECKER-ERROR = the checker itself failed.",
    "not_applicable": na,
}
json.dump(m, open(os.path.join(VERIF, "MANIFEST.json"), "w"), indent=1)
print("claimed", claimed, "n/a", [x["property_id"] for x in na])
