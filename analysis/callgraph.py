"""Call graph (A1): direct calls, closures, fn items used as values, and indirect calls
resolved through a small points-to analysis of fn-pointer *slots* (ADT fields and fn
parameters of fn-pointer type)."""
from facts import callee_decl, callee_name, op_place
from flow import tracer, Origin


def _is_fnptr_ty(ty):
    t = ty.strip()
    return ("fn(" in t) and not t.startswith("impl") and not t.startswith("[closure")


def trait_impl_methods(F):
    """(trait path, method name) -> [impl method paths] for local impls."""
    m = getattr(F, "_trait_impl_methods", None)
    if m is not None:
        return m
    m = {}
    for imp in F.impls:
        tr = imp.get("trait")
        if not tr:
            continue
        for it in imp["items"]:
            if it in F.fns:
                m.setdefault((tr, it.rsplit("::", 1)[-1]), []).append(it)
    F._trait_impl_methods = m
    return m


def direct_targets(F, t):
    """Local functions a (non-indirect) call terminator may enter."""
    c = t.get("callee", {})
    if "indirect" in c:
        return []
    name = c.get("resolved") or c.get("path") or ""
    if c.get("resolved") and name in F.fns:
        return [name]
    decl = c.get("path") or ""
    out = []
    if c.get("trait") and not c.get("resolved"):
        out = list(trait_impl_methods(F).get((c["trait"], decl.rsplit("::", 1)[-1]), []))
    if decl in F.fns and decl not in out:
        out.append(decl)
    if name in F.fns and name not in out:
        out.append(name)
    return out


class CallGraph:
    def __init__(self, F):
        self.F = F
        self.slot_targets = {}   # node -> set(fn path)
        self.slot_edges = {}     # node -> set(node)   (flows from key into values)
        self._build_slots()
        self._edges = {}

    # ----------------------------------------------------------- slot points-to
    def _node_for_origin(self, body, o):
        """Slot node an origin denotes, or ('fn', path) for a function constant."""
        if o.kind == "const" and o.data[0] == "fn":
            return ("fn", o.data[1])
        if o.path:
            # innermost field projection decides the slot
            for e in reversed(o.path):
                if e[0] == "f" and e[3]:
                    return ("field", e[3], e[2])
                if e[0] == "f":
                    break
        if o.kind == "param" and not o.path:
            return ("param", body.path, o.data)
        return None

    def _flow(self, src, dst):
        if src is None or dst is None:
            return
        if src[0] == "fn":
            self.slot_targets.setdefault(dst, set()).add(src[1])
        else:
            self.slot_edges.setdefault(src, set()).add(dst)

    def _build_slots(self):
        F = self.F
        for body in F.real_fns():
            tr = tracer(body)
            # aggregates of ADTs with fn-pointer fields
            for bb, i, s in body.statements():
                if s["s"] != "assign":
                    continue
                rv = s["rvalue"]
                if rv["rv"] == "agg" and rv["kind"] == "adt":
                    for idx, op in enumerate(rv["ops"]):
                        fname = rv["fields"][idx] if idx < len(rv["fields"]) else str(idx)
                        dst = ("field", rv["adt"], fname)
                        if not self._op_may_be_fn(body, op):
                            continue
                        for o in tr.operand(op):
                            self._flow(self._node_for_origin(body, o), dst)
                elif s["place"]["p"]:
                    # assignment into a field: x.f = value
                    last = s["place"]["p"][-1]
                    if isinstance(last, dict) and "f" in last and last.get("adt") and _is_fnptr_ty(last.get("ty", "")):
                        dst = ("field", last["adt"], last["name"])
                        if rv["rv"] in ("use", "cast"):
                            for o in tr.operand(rv["op"]):
                                self._flow(self._node_for_origin(body, o), dst)
            # arguments of calls to local functions
            for bb, t in body.calls():
                for tp in direct_targets(F, t):
                    for j, a in enumerate(t["args"]):
                        if not self._op_may_be_fn(body, a):
                            continue
                        dst = ("param", tp, j + 1)
                        for o in tr.operand(a):
                            self._flow(self._node_for_origin(body, o), dst)
            # returned fn pointers are not tracked (not needed in this code base)
        self._propagate()
        # indirect call sites pass fn pointers on to whatever they may call: iterate to a fixpoint
        for _ in range(6):
            added = False
            for body in F.real_fns():
                tr = tracer(body)
                for bb, t in body.calls():
                    if "indirect" not in t.get("callee", {}):
                        continue
                    if not any(self._op_may_be_fn(body, a) for a in t["args"]):
                        continue
                    targets, _u = self.indirect_targets(body, bb)
                    for tp in targets:
                        for j, a in enumerate(t["args"]):
                            if not self._op_may_be_fn(body, a):
                                continue
                            dst = ("param", tp, j + 1)
                            for o in tr.operand(a):
                                src = self._node_for_origin(body, o)
                                if src is None:
                                    continue
                                if src[0] == "fn":
                                    cur = self.slot_targets.setdefault(dst, set())
                                    if src[1] not in cur:
                                        cur.add(src[1])
                                        added = True
                                else:
                                    e = self.slot_edges.setdefault(src, set())
                                    if dst not in e:
                                        e.add(dst)
                                        added = True
            if not added:
                break
            self._propagate()

    def _propagate(self):
        changed = True
        while changed:
            changed = False
            for src, dsts in self.slot_edges.items():
                ts = self.slot_targets.get(src)
                if not ts:
                    continue
                for d in dsts:
                    cur = self.slot_targets.setdefault(d, set())
                    if not ts <= cur:
                        cur |= ts
                        changed = True

    def _op_may_be_fn(self, body, op):
        if op.get("k") == "const":
            return "fndef" in op or _is_fnptr_ty(op.get("ty", ""))
        pl = op_place(op)
        if pl is None:
            return False
        ty = body.locals[pl["l"]]["ty"]
        for e in pl["p"]:
            if isinstance(e, dict) and "ty" in e:
                ty = e["ty"]
        return _is_fnptr_ty(ty) or "FnDef" in ty or ty.startswith("fn item")

    # ------------------------------------------------------------------ queries
    def indirect_targets(self, body, bb):
        """Candidate local functions for the indirect call ending block bb."""
        t = body.blocks[bb].term
        c = t.get("callee", {})
        if "indirect" not in c:
            return None
        tr = tracer(body)
        out = set()
        unresolved = False
        for o in tr.operand(c["indirect"]):
            n = self._node_for_origin(body, o)
            if n is None:
                unresolved = True
            elif n[0] == "fn":
                out.add(n[1])
            else:
                out |= self.slot_targets.get(n, set())
        return out, unresolved

    def callees(self, body):
        """List of (bb, kind, [target paths]) for every outgoing edge of `body`:
        kind in direct | indirect | closure | fnitem."""
        if body.path in self._edges:
            return self._edges[body.path]
        F = self.F
        res = []
        for bb, t in body.calls():
            c = t.get("callee", {})
            if "indirect" in c:
                targets, _ = self.indirect_targets(body, bb)
                res.append((bb, "indirect", sorted(targets)))
            else:
                ts = direct_targets(F, t)
                if ts:
                    res.append((bb, "direct", ts))
            for a in t.get("args", []):
                if a.get("k") == "const" and "fndef" in a:
                    p = a.get("resolved") or a["fndef"]
                    if p in F.fns:
                        res.append((bb, "fnitem", [p]))
                if a.get("k") == "const" and "closure" in a and a["closure"] in F.fns:
                    res.append((bb, "closure", [a["closure"]]))
        for bb, i, s in body.statements():
            if s["s"] != "assign":
                continue
            rv = s["rvalue"]
            if rv["rv"] == "agg" and rv["kind"] in ("closure", "coroutine") and rv["closure"] in F.fns:
                res.append((bb, "closure", [rv["closure"]]))
            for op in _rvalue_operands(rv):
                if op.get("k") == "const" and "fndef" in op:
                    p = op.get("resolved") or op["fndef"]
                    if p in F.fns:
                        res.append((bb, "fnitem", [p]))
                if op.get("k") == "const" and "closure" in op and op["closure"] in F.fns:
                    res.append((bb, "closure", [op["closure"]]))
        self._edges[body.path] = res
        return res

    def callers_of(self, path):
        out = []
        for body in self.F.real_fns():
            for bb, kind, targets in self.callees(body):
                if path in targets:
                    out.append((body, bb, kind))
        return out

    def reachable_from(self, roots, edge_filter=None):
        seen = {}
        work = list(roots)
        for r in roots:
            seen[r] = None
        while work:
            p = work.pop()
            body = self.F.get(p)
            if body is None:
                continue
            for bb, kind, targets in self.callees(body):
                for t in targets:
                    if edge_filter and not edge_filter(body, bb, kind, t):
                        continue
                    if t not in seen:
                        seen[t] = (p, bb, kind)
                        work.append(t)
        return seen


def _rvalue_operands(rv):
    k = rv["rv"]
    if k in ("use", "cast", "repeat"):
        return [rv["op"]]
    if k == "bin":
        return [rv["a"], rv["b"]]
    if k == "un":
        return [rv["a"]]
    if k == "agg":
        return rv["ops"]
    return []


_cg = {}


def callgraph(F):
    g = _cg.get(id(F))
    if g is None or g.F is not F:
        g = CallGraph(F)
        _cg[id(F)] = g
    return g
