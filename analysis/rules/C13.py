"""C13 - Singleplayer and listen-server logic sees each local event exactly once."""
from engine import site_of
from facts import callee_decl, callee_name
from flow import tracer, short, required_outcomes, dep_closure, promoted_variant, named_const, switch_cond
from schedule import schedule
import effects
import rules.C05 as C05
import rules.C09 as C09

EXPLANATION = (
    "R1: run-condition table of every event system (send / local re-emission / receive / trigger, both directions). R2: the two "
    "consumers of a client event buffer are mutually exclusive: client_connected and server_or_singleplayer reduce to tests of "
    "RepliconClient.status against different variants. R3: nothing is queued for the wire outside a session (send is a no-op "
    "unless connected / running). R4 (typestate over the status automaton): for a buffer with a non-draining reader under "
    "condition p and a draining reader under d with p and d exclusive, every status edge from a p-state to a d-state must be "
    "covered by a system that drains the buffer on that edge; the server-direction pair must run reader-before-drainer in one "
    "chain. R5: local re-emission uses the local identity and the local recipient rules (C05.R1/R3).")
NOT_DECIDED = "exactly-once across arbitrary emission frames and plugin combinations beyond the four supported configurations (histories)"
TRUSTED_BASE = ["Bevy Events are double buffered: undrained events stay readable for two frames", "run conditions are re-evaluated every frame"]
ASSUMPTIONS = ["server_running implies server_or_singleplayer (an app does not run a server while its own client is connected elsewhere): true in the four supported configurations"]

CC = "bevy_replicon::shared::common_conditions::"
STATUS = "RepliconClientStatus"

RUN_TABLE = {
    "client::event::send": {"client_connected"},
    "client::event::resend_locally": {"server_or_singleplayer"},
    "client::event::receive": {"client_connected"},
    "client::event::trigger": set(),
    "server::event::receive": {"server_running"},
    "server::event::trigger": {"server_or_singleplayer"},
    "server::event::send_or_buffer": {"server_running"},
    "server::event::send_buffered": {"server_running", "resource_changed<ServerTick>"},
    "server::event::resend_locally": {"server_or_singleplayer"},
}


def _cond_names(entry):
    out = set()
    for c in entry["run_if"]:
        c = c.replace("bevy_replicon::shared::common_conditions::", "").replace("bevy_ecs::schedule::condition::common_conditions::", "")
        c = c.replace("bevy_replicon::server::server_tick::", "")
        out.add(c)
    return out


def r1_run_conditions(ctx):
    S = schedule(ctx.F)
    for name, want in sorted(RUN_TABLE.items()):
        es = S.system(name)
        if len(es) != 1:
            ctx.bad("%s/registered-once" % name, "", "%d registrations" % len(es), kind="anchor-missing")
            continue
        got = _cond_names(es[0])
        ctx.check(got == want, "%s/run-conditions" % name, "", "%s runs under %s, the configuration table demands %s" % (name, sorted(got), sorted(want)), str(sorted(got)))


def condition_shape(ctx, name):
    """-> (option_adapter, status_method, status_variant) of a RepliconClient run condition."""
    F = ctx.F
    b = ctx.fn("common_conditions::" + name)
    adapter = None
    method = None
    for bb, t in b.calls():
        d = callee_decl(t)
        if d.endswith("Option::<T>::is_some_and") or d.endswith("Option::<T>::is_none_or"):
            adapter = d.rsplit("::", 1)[-1]
    for cb in F.closures_of(b.path):
        for bb, t in cb.calls():
            d = callee_decl(t)
            if d.startswith("bevy_replicon::shared::backend::replicon_client::RepliconClient::is_"):
                method = d
    variant = None
    if method:
        mb = F.fns.get(method)
        if mb:
            for bl in mb.blocks:
                if bl.idx in mb.reach and bl.term["t"] == "call" and callee_decl(bl.term).endswith("PartialEq::eq"):
                    t = bl.term
                    sides = [tracer(mb).operand(a) for a in t["args"]]
                    if any(any(x.path and x.path[-1][2] == "status" for x in s) for s in sides):
                        for a in t["args"]:
                            v = promoted_variant(mb, a, STATUS)
                            if v:
                                variant = v
    return adapter, method and method.rsplit("::", 1)[-1], variant


def r2_mutual_exclusion(ctx):
    a = condition_shape(ctx, "client_connected")
    b = condition_shape(ctx, "server_or_singleplayer")
    ctx.check(a == ("is_some_and", "is_connected", "Connected"), "client_connected/shape", "", "client_connected is %s (expected client present and status == Connected)" % (a,), str(a))
    ctx.check(b == ("is_none_or", "is_disconnected", "Disconnected"), "server_or_singleplayer/shape", "",
              "server_or_singleplayer is %s (expected no client or status == Disconnected)" % (b,), str(b))
    excl = a[0] == "is_some_and" and a[2] and b[2] and a[2] != b[2]
    ctx.check(bool(excl), "send-vs-local-resend/mutually-exclusive", "", "a frame could both send a client event to the remote server and re-emit it locally: %s vs %s" % (a, b))
    c = condition_shape(ctx, "client_connecting")
    ctx.check(c[2] == "Connecting" and c[0] == "is_some_and", "client_connecting/shape", "", str(c))
    # server_running: server present and running
    sr = ctx.fn("common_conditions::server_running")
    ok = any(callee_decl(t).endswith("Option::<T>::is_some_and") for _, t in sr.calls()) and any(
        callee_decl(t).endswith("RepliconServer::is_running") for cb in ctx.F.closures_of(sr.path) for _, t in cb.calls())
    ctx.check(ok, "server_running/shape", site_of(sr), "server_running is not `server present and running`")


def r3_no_wire_without_session(ctx):
    before = len(ctx.instances)
    C09.r3_purge(ctx)


def _honours_cursor(ctx, rl):
    """The draining re-emitter skips the events the send cursor has already consumed: what it re-emits is the drain of the buffer,
    `skip`ped by a count that depends on `EventCursor::len(reader, events)` of the same buffer, with the reader being the resource
    registered under `reader_id` of the same event."""
    F = ctx.F
    calls = list(rl.calls())
    drains = [bb for bb, t in calls if callee_decl(t).endswith("Events::<E>::drain")]
    lens = [bb for bb, t in calls if callee_decl(t).endswith("EventCursor::<E>::len")]
    skips = [(bb, t) for bb, t in calls if callee_decl(t).endswith("Iterator::skip")]
    emits = [(bb, t) for bb, t in calls if callee_decl(t).endswith("::send_batch") or callee_decl(t).endswith("Events::<E>::send")]
    if not drains or not lens or not skips or not emits:
        return False, "no drain/len/skip/emit chain (%d/%d/%d/%d)" % (len(drains), len(lens), len(skips), len(emits))
    tr = tracer(rl)
    for sb, st in skips:
        src = dep_closure(rl, st["args"][0])
        cnt = dep_closure(rl, st["args"][1])
        if not any(("call", d) in src for d in drains):
            continue
        if not any(("call", l) in cnt for l in lens):
            continue
        # the cursor is asked about the buffer that is drained, and is the reader parameter
        ok_len = False
        for l in lens:
            lt = rl.blocks[l].term
            recv = dep_closure(rl, lt["args"][0])
            buf = dep_closure(rl, lt["args"][1])
            dbuf = set()
            for d in drains:
                dbuf |= dep_closure(rl, rl.blocks[d].term["args"][0])
            params_recv = {x for (k, x) in recv if k == "param"}
            params_buf = {x for (k, x) in buf if k == "param"}
            params_drain = {x for (k, x) in dbuf if k == "param"}
            if params_buf and params_buf == params_drain and params_recv and not (params_recv & params_buf):
                ok_len = True
        if not ok_len:
            return False, "the cursor is not asked about the drained buffer"
        if not all(any(("call", sb) in dep_closure(rl, a) for a in et["args"][1:]) for _, et in emits):
            return False, "what is re-emitted does not come from the skipped drain"
        # the system hands over the reader registered for the same event
        sysb = ctx.fn("client::event::resend_locally")
        for bb, t in sysb.calls():
            if callee_decl(t).endswith("ClientEvent::resend_locally") and len(t["args"]) >= 4:
                deps = dep_closure(sysb, t["args"][3])
                if any(k == "call" and callee_decl(sysb.blocks[d].term).endswith("ClientEvent::reader_id") for (k, d) in deps):
                    return True, ""
                return False, "the system does not pass the resource registered under reader_id"
        return False, "the resend system does not pass a reader"
    return False, "the re-emitted drain is not skipped by a cursor-derived count"


def r4_hand_over(ctx):
    F = ctx.F
    S = schedule(F)
    # --- client direction: Events<E> of client events
    fam = "shared::event::client_event::ClientEvent::events_id"
    readers, drainers = [], []
    for e in S.systems:
        if not e["where"].startswith("<bevy_replicon::"):
            continue
        eff = effects.system_effects(F, e["path"])
        body = F.fns.get(e["path"])
        called = {callee_decl(t) for _, t in body.calls()} if body else set()
        for (k, t, m) in eff:
            if k == "family" and t == fam:
                if m == "w":
                    # write access alone is not draining: the system must invoke the erased drain of that event
                    if any(c.endswith("ClientEvent::reset") or c.endswith("ClientEvent::resend_locally") for c in called):
                        drainers.append(e)
                else:
                    readers.append(e)
    ctx.check(len(readers) == 1 and len(drainers) >= 1, "client-events/consumers", "", "%d non-draining readers, %d drainers" % (len(readers), len(drainers)))
    if not readers:
        return
    p = _cond_names(readers[0])
    # status automaton: Disconnected, Connecting, Connected; p-state = Connected
    set_conf = {e["path"]: e for e in S.set_configs}
    covered = {}
    for d in drainers:
        conds = set(_cond_names(d))
        for s in d["sets"]:
            sc = set_conf.get(s)
            if sc:
                conds |= _cond_names(sc)
        covered[d["path"]] = conds
    # edge Connected -> Disconnected/Connecting: needs a drainer running on client_just_disconnected, or a drainer active in the
    # very frame the status left Connected *that honours the reader's cursor*
    leave_covered = any("client_just_disconnected" in c for c in covered.values())
    # the draining re-emitter ignores the cursor?
    rl = ctx.fn("client_event::ClientEvent::resend_locally_typed")
    honours_cursor, why_not = _honours_cursor(ctx, rl)
    ctx.check(leave_covered or honours_cursor, "ClientEvent::events_id/Connected->Disconnected", "",
              "client events are read without draining while connected (%s) and drained for local re-emission when not connected (%s); nothing drains the buffer on the "
              "edge Connected->Disconnected (drainers run under %s) and the re-emitter ignores the send cursor: an event already sent to the remote server is handled "
              "again locally when the client disconnects within the buffer's two-frame lifetime" % (sorted(p), sorted(_cond_names(drainers[-1])), {short(k): sorted(v) for k, v in covered.items()}),
              "edge covered: %s" % ("a drainer runs on client_just_disconnected" if leave_covered else "the re-emitter skips what the send cursor already consumed"))
    if not leave_covered and not honours_cursor:
        ctx.note("cursor check: %s" % why_not)
    enter_covered = any("client_just_connected" in c for c in covered.values())
    ctx.check(enter_covered, "ClientEvent::events_id/ ->Connected", "", "events emitted before connecting are not dropped on connect (they would be sent to the new server)")
    # --- server direction: Events<ToClients<E>>: fresh cursor reader + same-frame drain
    sob = S.system("server::event::send_or_buffer")
    rsl = S.system("server::event::resend_locally")
    if len(sob) == 1 and len(rsl) == 1:
        ok = sob[0]["chains"] and rsl[0]["chains"] and sob[0]["chains"][0][0] == rsl[0]["chains"][0][0] and sob[0]["chains"][0][1] < rsl[0]["chains"][0][1]
        ctx.check(bool(ok), "ToClients/read-then-drain-in-one-chain", "", "server events are not drained after being read in the same chain: a fresh cursor would re-read them next frame")
    rlt = ctx.fn("server_event::ServerEvent::resend_locally_typed")
    ctx.check(any(callee_decl(t).endswith("Events::<E>::drain") for _, t in rlt.calls()), "ToClients/drained-by-local-resend", site_of(rlt), "local re-emission does not drain the ToClients buffer")
    crl = ctx.fn("client_event::ClientEvent::resend_locally_typed")
    ctx.check(any(callee_decl(t).endswith("Events::<E>::drain") for _, t in crl.calls()), "client-events/drained-by-local-resend", site_of(crl), "local re-emission does not drain the client event buffer")
    sobt = ctx.fn("server_event::ServerEvent::send_or_buffer_typed")
    ctx.note("server_running => server_or_singleplayer is assumed (supported configurations); with it the ToClients reader never runs without the drainer")


def r5_local_identity(ctx):
    C05.r3_sender_identity(ctx)
    # local recipients rule is C05.R1's `resend_locally` table
    F = ctx.F
    body = ctx.fn("server_event::ServerEvent::resend_locally_typed")
    for bb, t in body.calls():
        if callee_decl(t).endswith("Events::<E>::send"):
            arm = C05._mode_arm(F, body, bb)
            g = C05.entity_guards(F, body, bb)
            ctx.check(g == C05.WANT_LOCAL.get(arm), "resend_locally/%s/local-recipient-rule" % arm, site_of(body, bb), "guards %s" % sorted((r, sorted(k)) for r, k in g))


def r6_recipient_tables(ctx):
    """The local server is a recipient through exactly one path: in every SendMode arm of the remote senders the local server
    (SERVER) is excluded, in the local re-emitter it is the only one served (same rule as C05.R1)."""
    C05.r1_recipients(ctx)


def r7_send_cursor(ctx):
    """Never twice: the client sends through its persistent cursor, which is never rewound (same rule as C05.R4)."""
    C05.r4_cursor(ctx)


def r20_unconditional_mutators(ctx):
    """Mutators this property relies on always perform their effect (shared table in rules/mutators.py)."""
    import rules.mutators as mutators
    mutators.run_for(ctx, "C13")


RULES = [
    ("C13.R1", "run-condition table of the event systems", r1_run_conditions, 9, ["default", "all-features"]),
    ("C13.R2", "remote send and local re-emission of client events are mutually exclusive", r2_mutual_exclusion, 5, None),
    ("C13.R3", "nothing is queued for the wire outside a session (same rule as C09.R3)", r3_no_wire_without_session, 8, None),
    ("C13.R4", "hand-over between the non-draining and the draining consumer on status edges", r4_hand_over, 5, ["default", "all-features"]),
    ("C13.R5", "local re-emission: SERVER identity and local recipient rules (C05.R1/R3)", r5_local_identity, 5, ["default", "all-features", "server-only"]),
    ("C13.R6", "SERVER is excluded from every remote send arm and served only by the local re-emitter (same rule as C05.R1)", r6_recipient_tables, 18, ["default", "all-features", "server-only"]),
    ("C13.R7", "the client's send cursor is persistent and never rewound (same rule as C05.R4)", r7_send_cursor, 8, ["default", "all-features"]),
    ("C13.R20", "mutators this property relies on always perform their effect (rules/mutators.py): no early return, no guard outside the allowed set", r20_unconditional_mutators, 1, ["default", "all-features"]),
]
THOROUGH_CONFIGS = ["default", "all-features", "server-only", "client-only"]
