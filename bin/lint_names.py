#!/usr/bin/env python3
"""Poor man's pyflakes: reports names used in a function that are neither local, enclosing, module-level nor builtin
(a NameError waiting on a rarely taken path of a rule)."""
import builtins, glob, os, symtable, sys
V = os.path.join(os.path.dirname(os.path.abspath(__file__)), "..")
bad = 0
for f in sorted(glob.glob(os.path.join(V, "analysis", "*.py")) + glob.glob(os.path.join(V, "analysis", "rules", "*.py")) + glob.glob(os.path.join(V, "bin", "*.py"))):
    src = open(f).read()
    try:
        top = symtable.symtable(src, f, "exec")
    except SyntaxError as e:
        print("SYNTAX", f, e)
        bad += 1
        continue
    mod = {s.get_name() for s in top.get_symbols()}

    def walk(t):
        global bad
        for c in t.get_children():
            if c.get_type() == "function":
                for s in c.get_symbols():
                    n = s.get_name()
                    if s.is_global() and s.is_referenced() and n not in mod and not hasattr(builtins, n):
                        print("%s: `%s` used in %s() is not defined" % (os.path.relpath(f, V), n, c.get_name()))
                        bad += 1
            walk(c)
    walk(top)
sys.exit(1 if bad else 0)
