"""C02 - Confirmed tick is truthful: entity state equals the server's at that tick.

Value equality with a recorded server history is not statically decidable; decided necessary conditions below."""
from engine import site_of
from facts import callee_decl, callee_name
from flow import (tracer, short, required_outcomes, dep_closure, is_next_switch, switch_cond, edge_outcome, cmp_facts, deep_origins, next_sources)
import rules.C10 as C10
import rules.C04 as C04
import rules.C01 as C01
from callgraph import callgraph

EXPLANATION = (
    "R1: ConfirmHistory.last_tick has two writers (new, set_last_tick); every set_last_tick call is either guarded by "
    "`message_tick > last_tick` or lies on the update-message path (ordered channel). R2: in apply_mutations a component is written "
    "directly only when the message is newer than the entity's confirmed tick; otherwise the data is skipped, or - only when a marker "
    "asked for history - handed to consume_or_write; skipped/consumed paths advance the cursor by the entity's data size. R3: on the "
    "server, whenever an entity has a structural change for a client (new entity, inserted component, pending removal) its pending "
    "mutations are merged into the update message and its mutation baseline is bumped in the same control region. R4 (= C10.R1): a "
    "mutate message never splits an entity. R5 (= C04.R2 + C01.R5): update-tick stamping and waiting. R6: the bit for an older tick "
    "is recorded only inside the window.")
NOT_DECIDED = "equality of client component values with the server's values at the confirmed tick over all histories and schedules (the structural necessary conditions R1-R6 are decided; D13 was found by R6 and fixed)"
TRUSTED_BASE = C10.TRUSTED_BASE + ["the update channel is reliable-ordered (C01.R8)"]

CH = "bevy_replicon::client::confirm_history::ConfirmHistory"
UPD = "bevy_replicon::server::replication_messages::updates::Updates"
TICKS = "bevy_replicon::shared::replication::client_ticks::ClientTicks"


def r1_monotone(ctx):
    F = ctx.F
    f = {x["name"]: x for x in F.adt_fields(CH)}
    ctx.check(f["last_tick"]["vis"].startswith("restricted") and f["mask"]["vis"].startswith("restricted"), "ConfirmHistory/fields-private", CH, "fields are not private")
    writers = set()
    for b in F.real_fns():
        if "::tests::" in b.path:
            continue
        for bb, i, s in b.statements():
            if s["s"] == "assign" and s["place"]["p"]:
                last = s["place"]["p"][-1]
                if isinstance(last, dict) and last.get("adt") == CH and last.get("name") == "last_tick":
                    writers.add(b.path)
            if s["s"] == "assign" and s["rvalue"]["rv"] == "agg" and s["rvalue"].get("adt") == CH:
                writers.add(b.path)
    ctx.check(writers == {CH + "::new", CH + "::set_last_tick"}, "ConfirmHistory.last_tick/writers", "", "last_tick is written by %s" % sorted(short(w) for w in writers))
    slt = ctx.fn("confirm_history::ConfirmHistory::set_last_tick")
    ctx.check(slt.vis != "pub", "set_last_tick/not-public", site_of(slt), "set_last_tick is public: user code could move the confirmed tick backwards")
    cg = callgraph(F)
    callers = [(cb, cbb) for (cb, cbb, k) in cg.callers_of(slt.path) if "::tests::" not in cb.path]
    ctx.check(len(callers) >= 3, "set_last_tick/callers", "", "%d call sites" % len(callers))
    for cb, cbb in callers:
        tr = tracer(cb)
        guarded = False
        for (s_, c, o) in required_outcomes(F, cb, cbb):
            conds = [c]
            if c["kind"] == "expr":
                # a boolean local computed from a comparison
                for x in deep_origins(cb, cb.blocks[s_].term["discr"]):
                    if x.kind == "call" and callee_decl(cb.blocks[x.data].term).endswith("PartialOrd::gt") and o == {True}:
                        ct = cb.blocks[x.data].term
                        rhs = dep_closure(cb, ct["args"][1])
                        if any(k == "call" and callee_decl(cb.blocks[d].term).endswith("ConfirmHistory::last_tick") for (k, d) in rhs):
                            guarded = True
            if c["kind"] == "cmp" and len(o) == 1:
                rel, a, b = cmp_facts(c, next(iter(o)))
                names_a = {e[2] for x in tr.operand(a) for e in x.path if e[0] == "f"}
                from_getter = any(k == "call" and callee_decl(cb.blocks[d].term).endswith("ConfirmHistory::last_tick") for (k, d) in dep_closure(cb, a))
                if rel == "<" and ("last_tick" in names_a or from_getter):
                    guarded = True
        if guarded:
            ctx.ok("%s/set_last_tick-guarded-by-newer" % short(cb.path), site_of(cb, cbb), "only when the message tick is newer than the confirmed tick")
            continue
        # otherwise must be on the update-message path only
        roots = set()
        seen, work = set(), [cb.path]
        while work:
            p = work.pop()
            if p in seen:
                continue
            seen.add(p)
            cs = [x.j.get("closure_root", x.path) for (x, _, k) in cg.callers_of(p) if "::tests::" not in x.path]
            if not cs:
                roots.add(p)
            work += cs
        via = {p for p in seen if p.endswith("client::apply_update_message")}
        mut_path = {p for p in seen if p.endswith("client::apply_mutations") or p.endswith("client::apply_mutate_messages")}
        ctx.check(bool(via) and not mut_path, "%s/set_last_tick-only-on-update-path" % short(cb.path), site_of(cb, cbb),
                  "an unguarded set_last_tick is reachable from the (unordered, lossy) mutate-message path: the confirmed tick could move backwards")


def r2_no_stale_write(ctx):
    F = ctx.F
    am = ctx.fn("client::apply_mutations")
    tr = tracer(am)
    writes = [(bb, t) for bb, t in am.calls() if callee_decl(t).endswith("ComponentFns::write")]
    cows = [(bb, t) for bb, t in am.calls() if callee_decl(t).endswith("ComponentFns::consume_or_write")]
    ctx.check(len(writes) == 1 and len(cows) == 1, "apply_mutations/write-sites", site_of(am), "%d write / %d consume_or_write sites" % (len(writes), len(cows)))
    # the new_tick boolean: gt(message_tick, history.last_tick())
    def new_tick_outcome(bb):
        res = None
        for (s_, c, o) in required_outcomes(F, am, bb):
            for x in deep_origins(am, am.blocks[s_].term["discr"]):
                if x.kind == "call" and callee_decl(am.blocks[x.data].term).endswith("PartialOrd::gt"):
                    ct = am.blocks[x.data].term
                    lhs = tr.operand(ct["args"][0])
                    rhs = dep_closure(am, ct["args"][1])
                    if all(y.kind == "param" and "RepliconTick" in am.locals[y.data]["ty"] for y in lhs) and \
                            any(k == "call" and callee_decl(am.blocks[d].term).endswith("ConfirmHistory::last_tick") for (k, d) in rhs) and len(o) == 1:
                        res = next(iter(o))
        return res
    for bb, t in writes:
        ctx.check(new_tick_outcome(bb) is True, "apply_mutations/direct-write-only-when-newer", site_of(am, bb),
                  "component data of a mutate message is written over the entity although the message is not newer than the entity's confirmed tick")
    for bb, t in cows:
        ctx.check(new_tick_outcome(bb) is False, "apply_mutations/history-path-only-when-older", site_of(am, bb), "consume_or_write is not the `older message` branch")
        nh = [(c, o) for (_, c, o) in required_outcomes(F, am, bb) if c["kind"] == "boolcall" and c["name"].endswith("EntityMarkers::need_history")]
        ctx.check(any(o == {True} for c, o in nh), "apply_mutations/history-path-only-when-requested", site_of(am, bb), "older data is processed although no marker asked for history")
    # skipped data: cursor advanced by the entity's data size on every early `Ok` return that skips
    size = [bb for bb, t in am.calls() if callee_decl(t).endswith("postcard_utils::from_buf") and any(a == "usize" for a in t["callee"]["args"])]
    advs = [(bb, t) for bb, t in am.calls() if callee_decl(t).endswith("Buf::advance")]
    splits = [(bb, t) for bb, t in am.calls() if callee_decl(t).endswith("Bytes::split_to")]
    ok = bool(size) and bool(advs) and all(any(x.kind == "call" and x.data in size for x in tr.operand(t["args"][1])) for bb, t in advs + splits)
    ctx.check(ok and len(advs) >= 2 and len(splits) == 1, "apply_mutations/skips-exactly-the-entity-data", site_of(am),
              "skipped or consumed entity data is not delimited by the decoded data size (%d advance, %d split_to)" % (len(advs), len(splits)))
    # every non-error way out after the size was decoded consumes the entity's data (advance or split_to)
    err_blocks = [bb for bb, t in am.calls() if callee_decl(t).endswith("FromResidual::from_residual")]
    for bb, i, st in am.statements():
        if st["s"] == "assign" and st["place"] == {"l": 0, "p": []} and st["rvalue"]["rv"] == "agg" and st["rvalue"].get("variant") == "Err":
            err_blocks.append(bb)
    consumed = [bb for bb, t in advs + splits]
    leaks = []
    if size:
        for e in am.exits():
            if am.reachable_avoiding(e, (), start=size[0], removed_blocks=tuple(consumed + err_blocks)):
                leaks.append(e)
    ctx.check(bool(size) and not leaks, "apply_mutations/every-ok-exit-consumes-entity-data", site_of(am),
              "apply_mutations can return Ok without having consumed the entity's data: the next entity of the message would be parsed from the middle of this one")
    # the window bit for an older tick: guarded by ago < BITS (C12.R1 proves the bound); ago derives from last_tick - message_tick
    sets = [(bb, t) for bb, t in am.calls() if callee_decl(t).endswith("ConfirmHistory::set")]
    for bb, t in sets:
        d = dep_closure(am, t["args"][1])
        ok = any(k == "call" and callee_decl(am.blocks[x].term).endswith("ConfirmHistory::last_tick") for (k, x) in d)
        ctx.check(ok and new_tick_outcome(bb) is False, "apply_mutations/older-tick-recorded-relative-to-confirmed", site_of(am, bb), "the bit recorded for an older message is not `last_tick - message_tick`")
    # the entity written is the one the message names (map lookup of the decoded server entity)
    ge = [(bb, t) for bb, t in am.calls() if callee_decl(t).endswith("World::get_entity_mut")]
    ok = False
    for bb, t in ge:
        d = dep_closure(am, t["args"][1])
        if any(k == "call" and callee_decl(am.blocks[x].term).endswith("deserialize_entity") for (k, x) in d) and any(k == "call" and callee_decl(am.blocks[x].term).endswith("ServerEntityMap::to_client") for (k, x) in d):
            ok = True
    ctx.check(ok, "apply_mutations/entity-resolved-through-map", site_of(am), "the mutated client entity is not the mapping of the server entity named in the message")


def r3_merge_and_bump(ctx):
    F = ctx.F
    cc = ctx.fn("server::collect_changes")
    tr = tracer(cc)
    bumps = [(bb, t) for bb, t in cc.calls() if callee_decl(t) == TICKS + "::set_mutation_tick"]
    takes = [(bb, t) for bb, t in cc.calls() if callee_decl(t) == UPD + "::take_added_entity"]
    ctx.check(len(bumps) == 1 and len(takes) == 1, "collect_changes/merge-sites", site_of(cc), "%d set_mutation_tick / %d take_added_entity" % (len(bumps), len(takes)))
    if not (bumps and takes):
        return
    bbb, bt = bumps[0]
    tbb, tt = takes[0]
    # the three entry conditions
    entry_edges = []
    kinds = set()
    inner = sorted(cc.loops_containing(bbb), key=lambda x: len(x[1]))
    in_h, in_body = (inner[0] if inner else (None, set()))
    back = [(a, in_h) for a in in_body for (tt, _) in cc.succ[a] if tt == in_h]
    for blk in cc.blocks:
        if blk.idx not in cc.reach or blk.term["t"] != "switch" or blk.idx not in in_body or not cc.reachable_avoiding(bbb, back, start=blk.idx):
            continue
        c = switch_cond(cc, blk.idx)
        for (tb, lab) in cc.succ[blk.idx]:
            out = edge_outcome(F, cc, blk.idx, lab, c)
            if c["kind"] == "boolcall" and c["name"] == UPD + "::changed_entity_added" and out is True:
                entry_edges.append((blk.idx, tb, lab)); kinds.add("changed_entity_added")
            if c["kind"] == "boolcall" and c["name"].endswith("::contains_key") and out is True:
                if any("RemovalBuffer" in cc.locals[x.data]["ty"] for x in tr.operand(c["args"][0]) if x.kind == "param"):
                    entry_edges.append((blk.idx, tb, lab)); kinds.add("removal_buffer.contains_key")
            if c["kind"] in ("expr", "cmp") and out is True:
                # new_entity = marker_added || visibility == Gained  (data side: the comparison with Gained)
                from flow import promoted_variant
                srcs = dep_closure(cc, blk.term["discr"])
                for (k, x) in srcs:
                    if k == "call" and "Visibility as core::cmp::PartialEq" in callee_name(cc.blocks[x].term):
                        if any(promoted_variant(cc, a, "Visibility") == "Gained" for a in cc.blocks[x].term["args"]):
                            entry_edges.append((blk.idx, tb, lab)); kinds.add("new_entity")
    ctx.check(kinds == {"new_entity", "changed_entity_added", "removal_buffer.contains_key"}, "collect_changes/structural-change-conditions", site_of(cc, bbb),
              "the merge/bump region is entered on %s (expected: new entity, inserted component, pending removal)" % sorted(kinds))
    # find the per-client loop header of that region
    loops = sorted(cc.loops_containing(bbb), key=lambda x: len(x[1]))
    if loops:
        h = loops[0][0]
        only = not cc.reachable_avoiding(bbb, entry_edges, start=h)
        ctx.check(only, "collect_changes/bump-only-on-structural-change", site_of(cc, bbb), "the mutation baseline is bumped without a structural change for that client (mutations since the last ack would be skipped)")
        # every entry edge leads to the bump (no path from an entry edge back to the loop header avoiding the bump)
        miss = []
        for (a, tb, lab) in entry_edges:
            if cc.reachable_avoiding(h, (), start=tb, removed_blocks=(bbb,)):
                miss.append(a)
        ctx.check(not miss, "collect_changes/bump-on-every-structural-change", site_of(cc, bbb),
                  "a structural change can be sent without bumping the entity's mutation baseline (switches %s): the following mutate message would re-send or mix ticks" % miss)
        # the merge lies inside the region, before the bump, guarded only by `mutations.entity_added()`
        ctx.check(not cc.reachable_avoiding(tbb, entry_edges, start=h) and cc.reachable_avoiding(bbb, (), start=tbb), "collect_changes/merge-inside-region", site_of(cc, tbb),
                  "pending mutations are merged into the update message outside the structural-change region")
        g = [(c.get("name"), o) for (_, c, o) in required_outcomes(F, cc, tbb) if c["kind"] == "boolcall" and not c["name"].endswith("changed_entity_added") and not c["name"].endswith("contains_key")]
        ctx.check(g == [("bevy_replicon::server::replication_messages::mutations::Mutations::entity_added", {True})], "collect_changes/merge-iff-pending-mutations", site_of(cc, tbb), "merge guards: %s" % g)
    # same client / same entity
    from rules.C08 import _client_items
    ctx.check(bool(_client_items(cc, bt["args"][0]) & _client_items(cc, tt["args"][0])), "collect_changes/merge-and-bump-same-client", site_of(cc, bbb), "")
    ctx.check(bool(next_sources(F, cc, bt["args"][1])), "collect_changes/bump-iterated-entity", site_of(cc, bbb), "")
    ta = ctx.fn("updates::Updates::take_added_entity")
    calls = [callee_decl(t) for _, t in ta.calls()]
    ctx.check(any(c.endswith("Mutations::pop") for c in calls) and any(c.endswith("ChangeRanges::extend") for c in calls), "take_added_entity/moves-mutations", site_of(ta),
              "take_added_entity does not move the entity's mutations into the update message (extend + pop)")


def r4_no_split(ctx):
    C10.r1_boundaries(ctx)


def r5_stamping_and_waiting(ctx):
    C04.r2_stamping(ctx)
    C01.r5_buffered_until_update_tick(ctx)
    # mutate messages carry the client's update tick at send time
    F = ctx.F
    ms = ctx.fn("mutations::Mutations::send")
    tr = tracer(ms)
    ut = [bb for bb, t in ms.calls() if callee_decl(t) == TICKS + "::update_tick"]
    ser = [(bb, t) for bb, t in ms.calls() if callee_decl(t).endswith("postcard::ser::to_slice")]
    ok = bool(ut) and bool(ser) and any(any(x.kind == "call" and x.data in ut for x in tr.operand(t["args"][0])) for bb, t in ser)
    ctx.check(ok, "Mutations::send/carries-update-tick", site_of(ms), "mutate messages do not carry the recipient's update tick")
    bm = ctx.fn("client::buffer_mutate_message")
    btr = tracer(bm)
    aggs = [s["rvalue"] for _, _, s in bm.statements() if s["s"] == "assign" and s["rvalue"]["rv"] == "agg" and s["rvalue"].get("adt", "").endswith("BufferedMutate")]
    if aggs:
        m = dict(zip(aggs[0]["fields"], aggs[0]["ops"]))
        reads = [bb for bb in bm.rpo if bm.blocks[bb].term["t"] == "call" and callee_decl(bm.blocks[bb].term).endswith("postcard_utils::from_buf")]
        first = {x.data for x in btr.operand(m["update_tick"]) if x.kind == "call"}
        second = {x.data for x in btr.operand(m["message_tick"]) if x.kind == "call"}
        ctx.check(first == {reads[0]} and second == {reads[1]}, "buffer_mutate_message/ticks-in-wire-order", site_of(bm), "update tick / message tick are not taken from the first / second decoded value")
    else:
        ctx.bad("buffer_mutate_message/BufferedMutate", site_of(bm), "construction not found", kind="anchor-missing")


def r6_ack_when_consumed(ctx):
    """A value the client is confirmed for is a value it applied or one superseded by newer data it applied: acknowledgements are sent
    only for consumed messages (same rule as C11.R4; acknowledge-on-receipt then skip-as-outdated was D13)."""
    import rules.C11 as C11
    C11.r4_client_acks(ctx)


def r7_ack_list_pool(ctx):
    """An acknowledgement never covers entities of an earlier message through a recycled entity list (same rule as C11.R6)."""
    import rules.C11 as C11
    C11.r6_ack_list_pool(ctx)


def r8_ack_confirms_recorded_tick(ctx):
    """An acknowledgement confirms the tick at which the acknowledged message was *sent* (the recorded tick), for the recorded
    entities, forward only (same rule as C11.R2): confirming the tick at which the ack arrives would cover changes made in between."""
    import rules.C11 as C11
    C11._F[0] = ctx.F
    C11.r2_ack(ctx)


def r20_unconditional_mutators(ctx):
    """Mutators this property relies on always perform their effect (shared table in rules/mutators.py)."""
    import rules.mutators as mutators
    mutators.run_for(ctx, "C02")


RULES = [
    ("C02.R1", "the confirmed tick moves only forward on the mutate path", r1_monotone, 6, ["default", "all-features", "client-only"]),
    ("C02.R2", "stale mutate data is never written over newer state", r2_no_stale_write, 7, ["default", "all-features", "client-only"]),
    ("C02.R3", "structural change => mutations merged into the update message and baseline bumped, together", r3_merge_and_bump, 8, ["default", "all-features", "server-only"]),
    ("C02.R4", "a mutate message never splits an entity (same rule as C10.R1)", r4_no_split, 12, ["default", "all-features", "server-only"]),
    ("C02.R5", "update-tick stamping and waiting (C04.R2 + C01.R5) and tick fields in wire order", r5_stamping_and_waiting, 12, ["default", "all-features"]),
    ("C02.R6", "mutate messages are acknowledged only when consumed, so skipped-as-outdated data was really superseded (same rule as C11.R4)", r6_ack_when_consumed, 8, ["default", "all-features", "client-only"]),
    ("C02.R7", "recycled acknowledgement entity lists are empty when reused (same rule as C11.R6)", r7_ack_list_pool, 1, ["default", "all-features", "server-only"]),
    ("C02.R8", "an acknowledgement confirms the recorded (sent) tick of the recorded entities, forward only (same rule as C11.R2)", r8_ack_confirms_recorded_tick, 6, ["default", "all-features", "server-only"]),
    ("C02.R20", "mutators this property relies on always perform their effect (rules/mutators.py): no early return, no guard outside the allowed set", r20_unconditional_mutators, 1, ["default", "all-features"]),
]
THOROUGH_CONFIGS = ["default", "all-features", "server-only", "client-only"]
