"""Upper-bound reasoning for shift amounts / indices (used by C12).

`bounded_below(F, body, bb, op, limit)` decides whether the value of `op` is `< limit` on every path
reaching block `bb`: a constant, a dominating non-debug guard on the same value (any normal form of the
comparison), or - for a parameter of a function that is not callable from outside the crate - the same
at every call site in the workspace."""
from callgraph import callgraph
from facts import callee_decl, callee_name, op_place
from flow import tracer, required_outcomes, cmp_facts, deep_origins


def const_value(body, op, depth=0):
    if op.get("k") == "const":
        return op.get("val")
    tr = tracer(body)
    vals = set()
    for o in tr.operand(op):
        if o.kind == "const" and o.data[0] == "val" and not o.path:
            vals.add(o.data[1])
        elif o.kind == "stmt" and not o.path and depth < 4:
            rv = body.blocks[o.data[0]].stmts[o.data[1]]["rvalue"]
            if rv["rv"] == "cast":
                v = const_value(body, rv["op"], depth + 1)
                if v is None:
                    return None
                vals.add(v)
            else:
                return None
        else:
            return None
    if len(vals) == 1:
        return next(iter(vals))
    return None


def guard_bound(F, body, bb, op, limit):
    """A dominating guard proves op < limit. Returns description or None."""
    tr = tracer(body)
    want = tr.operand(op)
    for (sbb, cond, outs) in required_outcomes(F, body, bb):
        if cond["kind"] != "cmp" or len(outs) != 1:
            continue
        out = next(iter(outs))
        if out not in (True, False):
            continue
        rel, a, b = cmp_facts(cond, out)
        if tr.operand(a) != want:
            continue
        k = const_value(body, b)
        if k is None:
            continue
        if rel == "<" and k <= limit:
            return "guard at bb%d: value < %d" % (sbb, k)
        if rel == "<=" and k <= limit - 1:
            return "guard at bb%d: value <= %d" % (sbb, k)
        if rel == "==" and k < limit:
            return "guard at bb%d: value == %d" % (sbb, k)
    return None


def externally_callable(F, body):
    """Could a downstream crate call this function directly?"""
    v = body.vis or ""
    return v == "pub"


def bounded_below(F, body, bb, op, limit, depth=0):
    """-> (ok, reason)"""
    k = const_value(body, op)
    if k is not None:
        return (0 <= k < limit, "constant %s" % k)
    g = guard_bound(F, body, bb, op, limit)
    if g:
        return True, g
    tr = tracer(body)
    origins = tr.operand(op)
    if depth < 3 and origins and all(o.kind == "param" and not o.path for o in origins):
        if externally_callable(F, body):
            return False, "parameter of a `pub` function without a dominating bound check"
        cg = callgraph(F)
        reasons = []
        for o in origins:
            callers = [(cb, cbb, kind) for (cb, cbb, kind) in cg.callers_of(body.path) if kind in ("direct", "indirect")]
            callers = [(cb, cbb, kind) for (cb, cbb, kind) in callers if "::tests::" not in cb.path]
            if not callers:
                return False, "parameter with no visible caller"
            for cb, cbb, kind in callers:
                arg = cb.blocks[cbb].term["args"][o.data - 1]
                ok, why = bounded_below(F, cb, cbb, arg, limit, depth + 1)
                if not ok:
                    return False, "call site in %s does not bound the argument (%s)" % (cb.path, why)
                reasons.append("%s: %s" % (cb.path.rsplit("::", 2)[-1], why))
        return True, "bounded at every call site: " + "; ".join(reasons)
    return False, "no constant, dominating guard or bounded call sites found (origins: %s)" % ", ".join(sorted(tr.describe(o) for o in origins))


def values_reaching(body, start_bb, value_op_origins, target_bb, candidates):
    """Which concrete values of one integer quantity (identified by the tracer origins of an operand) allow
    control to flow from start_bb to target_bb? Switches on the quantity itself or on a comparison of it with
    a constant are resolved for each candidate value; every other switch is followed on all edges.
    (A small, exact decision-tree evaluation over the CFG - no program execution.)"""
    tr = tracer(body)
    ok = set()

    def same(op):
        return tr.operand(op) == value_op_origins

    for n in candidates:
        seen = set()
        work = [start_bb]
        reached = False
        while work:
            bb = work.pop()
            if bb in seen:
                continue
            seen.add(bb)
            if bb == target_bb:
                reached = True
                break
            t = body.blocks[bb].term
            succs = body.succ[bb]
            if t["t"] == "switch":
                d = t["discr"]
                feas = None
                if same(d):
                    listed = [v for v, _ in t["targets"]]
                    feas = [tb for (tb, lab) in succs if lab == n]
                    if not feas and n not in listed:
                        feas = [tb for (tb, lab) in succs if lab == "otherwise"]
                else:
                    from flow import switch_cond
                    c = switch_cond(body, bb)
                    if c and c["kind"] == "cmp":
                        a, b = c["a"], c["b"]
                        va = n if same(a) else const_value(body, a)
                        vb = n if same(b) else const_value(body, b)
                        if va is not None and vb is not None and (same(a) or same(b)):
                            res = {"<": va < vb, "<=": va <= vb, ">": va > vb, ">=": va >= vb, "==": va == vb, "!=": va != vb}[c["rel"]]
                            if c.get("neg"):
                                res = not res
                            want = 1 if res else 0
                            listed = [v for v, _ in t["targets"]]
                            feas = [tb for (tb, lab) in succs if lab == want]
                            if not feas and want not in listed:
                                feas = [tb for (tb, lab) in succs if lab == "otherwise"]
                if feas is not None:
                    work.extend(feas)
                    continue
            work.extend(tb for (tb, lab) in succs)
        if reached:
            ok.add(n)
    return ok
