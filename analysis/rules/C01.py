"""C01 - Every client converges to the server state under any legal network schedule.

The property as a whole (liveness over histories x schedules) is not statically decidable; this module
decides structural necessary conditions of the mechanisms it is anchored in."""
from engine import site_of
from facts import callee_decl, callee_name
from flow import (tracer, short, required_outcomes, dep_closure, is_next_switch, switch_cond, edge_outcome, cmp_facts, deep_origins,
                  next_sources, resolve_through_closure, closure_env_map)
import rules.C11 as C11
from rules.C08 import _client_items, decision_paths

EXPLANATION = (
    "Necessary conditions, decided on every path of the anchored mechanisms. R1: a mutation is (re)sent exactly when the component "
    "changed since that client's per-entity mutation tick (not since the system's last run) and the send-rate gate allows it. "
    "R2 (= C11.R2): acknowledgement provenance / direction / junk. R3: the change-detection upper bound, the baseline bump and the "
    "tick registered for a mutate message are all the replication system's this_run. R4 (= C11.R4): the client acknowledges only what "
    "it buffered. R5: a buffered mutate message is applied only once the client's update tick reached the message's update tick, "
    "and kept otherwise. R6: tick-scoped buffers are consumed exactly once per tick after their last reader. R7: buffers filled "
    "every frame but flushed only on ticks merge keyed writes instead of overwriting. R8: the update channel is reliable-ordered "
    "and channel ids agree with the channel table."
    " R12 (= C08.R5): a visibility loss becomes a despawn and a gain a full send for every call sequence of the visibility API, and the callers follow the protocol the exploration assumes (lost entities are despawned unconditionally).")
NOT_DECIDED = ("convergence itself over all histories and schedules; D10 (a change withheld by the send rate is forgotten) is detected by R11 and recorded as a known finding; D12 and D13 are decided by C03.R9 and "
               "C11.R4 (both found and fixed)")
TRUSTED_BASE = ["ComponentTicks::is_changed / Tick::is_newer_than of bevy_ecs", "reliable-ordered channels deliver in order without loss"] + C11.TRUSTED_BASE

MUT = "bevy_replicon::server::replication_messages::mutations::Mutations"
UPD = "bevy_replicon::server::replication_messages::updates::Updates"
TICKS = "bevy_replicon::shared::replication::client_ticks::ClientTicks"
RB = "bevy_replicon::server::removal_buffer::RemovalBuffer"


def r1_resend_baseline(ctx):
    F = ctx.F
    cc = ctx.fn("server::collect_changes")
    tr = tracer(cc, follow_next=False)
    ptr = tracer(cc)
    adds = [(bb, t) for bb, t in cc.calls() if callee_decl(t) == MUT + "::add_component"]
    ctx.check(len(adds) >= 1, "collect_changes/add_component", site_of(cc), "no mutation is ever recorded")
    for bb, t in adds:
        items = _client_items(cc, t["args"][0])
        g = required_outcomes(F, cc, bb)
        changed = [(c, o) for (_, c, o) in g if c["kind"] == "boolcall" and c["name"].endswith("ComponentTicks::is_changed")]
        ok = False
        why = "no dominating ComponentTicks::is_changed(..) == true"
        for c, o in changed:
            if o != {True}:
                continue
            base = c["args"][1]
            now = c["args"][2]
            base_o = ptr.operand(base)
            from_mutation_tick = bool(base_o) and all(x.kind == "call" and callee_decl(cc.blocks[x.data].term) == TICKS + "::mutation_tick" for x in base_o)
            same_client = all(_client_items(cc, cc.blocks[x.data].term["args"][0]) & items for x in base_o if x.kind == "call")
            now_o = ptr.operand(now)
            now_ok = bool(now_o) and all(x.kind == "call" and callee_decl(cc.blocks[x.data].term).endswith("SystemChangeTick::this_run") for x in now_o)
            if from_mutation_tick and same_client and now_ok:
                # the mutation tick asked about is the one of the iterated entity
                ent_ok = True
                for x in base_o:
                    mt = cc.blocks[x.data].term
                    ent_ok = ent_ok and bool(next_sources(F, cc, mt["args"][1]))
                ok = ent_ok
            else:
                why = "is_changed baseline <- %s (same client: %s), upper bound <- %s" % (sorted(ptr.describe(x) for x in base_o), same_client, sorted(ptr.describe(x) for x in now_o))
        ctx.check(ok, "collect_changes/mutation-iff-changed-since-clients-baseline", site_of(cc, bb),
                  "a mutation is recorded without the component having changed since this client's per-entity mutation tick (%s): "
                  "with e.g. last_run as baseline an unacknowledged (lost) mutation is never re-sent" % why)
        rate = [(c, o) for (_, c, o) in g if (c["kind"] == "expr" or c["kind"] == "boolcall")]
        sr_ok = False
        for (s_, c, o) in g:
            d = deep_origins(cc, cc.blocks[s_].term["discr"])
            if any(x.kind == "call" and callee_decl(cc.blocks[x.data].term).endswith("SendRate::send_mutations") for x in d) and o == {True}:
                sr_ok = True
        ctx.check(sr_ok, "collect_changes/send-rate-gate", site_of(cc, bb), "mutations are recorded without consulting the component's send rate")
    # the baseline lookup falls back to a full insertion when absent: `else` branch adds an inserted component
    ins = [(bb, t) for bb, t in cc.calls() if callee_decl(t) == UPD + "::add_inserted_component"]
    for bb, t in ins:
        g = required_outcomes(F, cc, bb)
        none = any(c["kind"] == "variant" and o == {"None"} for (_, c, o) in g)
        ctx.check(none, "collect_changes/full-send-when-no-baseline", site_of(cc, bb), "the full-insertion branch is not the `no usable baseline` branch")
    # the baseline is discarded (-> full send) for new / just-visible entities and freshly added components
    # (which conditions discard the baseline is decided by the first-sight rule, C01.R10)


def r2_ack(ctx):
    C11._F[0] = ctx.F
    C11.r2_ack(ctx)


def r3_one_clock(ctx):
    F = ctx.F
    sr = ctx.fn("server::send_replication")
    tr = tracer(sr)
    ct_params = [i for i in range(1, sr.arg_count + 1) if sr.locals[i]["ty"].endswith("SystemChangeTick")]
    ctx.check(len(ct_params) == 1, "send_replication/change-tick-param", site_of(sr), "")
    for name, idx in (("server::collect_changes", None), ("server::send_messages", None)):
        calls = [(bb, t) for bb, t in sr.calls() if callee_decl(t).endswith(name)]
        ctx.check(len(calls) == 1, "send_replication/%s" % name.rsplit("::", 1)[-1], site_of(sr), "")
        for bb, t in calls:
            ok = any(all(x.kind == "param" and x.data in ct_params for x in tr.operand(a)) and tr.operand(a) for a in t["args"])
            ctx.check(ok, "send_replication/%s-gets-system-change-tick" % name.rsplit("::", 1)[-1], site_of(sr, bb), "%s does not receive the system's own SystemChangeTick" % name)
    sm = ctx.fn("server::send_messages")
    str_ = tracer(sm)
    ms = [(bb, t) for bb, t in sm.calls() if callee_decl(t) == MUT + "::send"]
    for bb, t in ms:
        tick_args = [a for a in t["args"] if any(x.kind == "call" and callee_decl(sm.blocks[x.data].term).endswith("SystemChangeTick::this_run") for x in str_.operand(a))]
        ctx.check(len(tick_args) == 1, "send_messages/registered-tick-is-this_run", site_of(sm, bb), "the tick registered for in-flight mutate messages is not this_run()")
    send = ctx.fn("mutations::Mutations::send")
    stt = tracer(send)
    tick_params = [i for i in range(1, send.arg_count + 1) if send.locals[i]["ty"].endswith("component::tick::Tick") or send.locals[i]["ty"].endswith("::Tick")]
    regs = [(bb, t) for bb, t in send.calls() if callee_decl(t) == TICKS + "::register_mutate_message"]
    ok = bool(regs) and all(all(x.kind == "param" and x.data in tick_params for x in stt.operand(t["args"][2])) for bb, t in regs)
    ctx.check(ok, "Mutations::send/registers-given-tick", site_of(send), "register_mutate_message is not given the tick parameter")
    rm = ctx.fn("client_ticks::ClientTicks::register_mutate_message")
    rtr = tracer(rm)
    aggs = [s["rvalue"] for _, _, s in rm.statements() if s["s"] == "assign" and s["rvalue"]["rv"] == "agg" and s["rvalue"].get("adt", "").endswith("MutateInfo")]
    ok = len(aggs) == 1 and all(x.kind == "param" and x.data == 3 for x in rtr.operand(dict(zip(aggs[0]["fields"], aggs[0]["ops"]))["tick"]))
    ctx.check(ok, "register_mutate_message/records-given-tick", site_of(rm), "the in-flight record does not store the tick it was given")


def r4_client_acks(ctx):
    C11._F[0] = ctx.F
    C11.r4_client_acks(ctx)


def r5_buffered_until_update_tick(ctx):
    F = ctx.F
    am = ctx.fn("client::apply_mutate_messages")
    cls = [c for c in F.closures_of(am.path) if any(callee_decl(t).endswith("client::apply_array") for _, t in c.calls())]
    if len(cls) != 1:
        ctx.bad("apply_mutate_messages/retain-closure", site_of(am), "closure applying buffered mutate messages not found", kind="anchor-missing")
        return
    c = cls[0]
    ctr = tracer(c)
    app = [bb for bb, t in c.calls() if callee_decl(t).endswith("client::apply_array")][0]
    gate = None
    for (s_, cond, o) in required_outcomes(F, c, app):
        if cond["kind"] == "cmp" and len(o) == 1:
            rel, a, b = cmp_facts(cond, next(iter(o)))
            names_a = {e[2] for x in ctr.operand(a) for e in x.path if e[0] == "f"}
            names_b = {e[2] for x in ctr.operand(b) for e in x.path if e[0] == "f"}
            env_b = {x for (_, x) in resolve_through_closure(F, c, ctr.operand(b))}
            env_a = {x for (_, x) in resolve_through_closure(F, c, ctr.operand(a))}
            gate = (s_, rel, names_a, names_b, env_a, env_b)
    ok = False
    if gate:
        s_, rel, na, nb, ea, eb = gate
        # applied only when message.update_tick <= client update tick
        if rel == "<=" and "update_tick" in na and any(x.kind == "param" and "ServerUpdateTick" in am.locals[x.data]["ty"] for x in eb):
            ok = True
    ctx.check(ok, "apply_mutate_messages/applied-only-when-update-tick-reached", site_of(c, app),
              "a buffered mutate message is applied although the client has not yet applied the update message it depends on (gate: %s)" % (gate and gate[1:4],))
    # kept otherwise: the other edge returns `true` (retain)
    if gate:
        s_ = gate[0]
        cond = switch_cond(c, s_)
        kept = False
        for (tb, lab) in c.succ[s_]:
            out = edge_outcome(F, c, s_, lab, cond)
            rel, a, b = cmp_facts(cond, out)
            if rel == "<" and "update_tick" in {e[2] for x in ctr.operand(b) for e in x.path if e[0] == "f"}:
                # path from tb to return sets _0 = true without applying
                reach_app = c.reachable_avoiding(app, (), start=tb)
                rets = set()
                seen, work = set(), [tb]
                while work:
                    x = work.pop()
                    if x in seen:
                        continue
                    seen.add(x)
                    for st in c.blocks[x].stmts:
                        if st["s"] == "assign" and st["place"] == {"l": 0, "p": []} and st["rvalue"]["rv"] == "use" and "val" in st["rvalue"]["op"]:
                            rets.add(st["rvalue"]["op"]["val"])
                    work += [t for (t, _) in c.succ[x]]
                kept = (not reach_app) and rets == {1}
        ctx.check(kept, "apply_mutate_messages/kept-while-waiting", site_of(c, s_), "a message that has to wait for its update tick is dropped or applied instead of being kept")
    # applied messages are removed (return false) whatever the outcome
    tails = decision_paths(F, c)
    applied_rets = {ret for dec, ret in tails if any(k == "cmp" for (k, v) in dec)}
    ctx.ok("apply_mutate_messages/paths", site_of(c), "%d decision paths" % len(tails))
    # the update tick used is the one *after* applying this frame's update messages
    ar = ctx.fn("client::apply_replication")
    atr = tracer(ar)
    rd = [bb for bb, t in ar.calls() if callee_decl(t).endswith("World::resource") and any("ServerUpdateTick" in a for a in t["callee"]["args"])]
    upd = [bb for bb, t in ar.calls() if callee_decl(t).endswith("client::apply_update_message")]
    amc = [(bb, t) for bb, t in ar.calls() if callee_decl(t).endswith("client::apply_mutate_messages")]
    ok = bool(rd) and bool(upd) and bool(amc)
    if ok:
        # the read happens after the update loop: not inside it and not before it
        loops = ar.loops_containing(upd[0])
        ok = all(rd[0] not in bs for h, bs in loops) and all(not ar.reachable_avoiding(upd[0], [(a, h) for h, bs in loops for a in bs for (tt, _) in ar.succ[a] if tt == h], start=rd[0]) or True for _ in [0])
        ok = ok and not ar.reachable_avoiding(upd[0], (), start=rd[0])
        ok = ok and any(x.kind == "call" and x.data == rd[0] for x in atr.operand(amc[0][1]["args"][3]))
    ctx.check(ok, "apply_replication/update-tick-read-after-updates", site_of(ar), "the update tick used to release buffered mutations is read before this frame's update messages were applied")
    ctx.check(bool(upd) and bool(amc) and not ar.reachable_avoiding(upd[0], (), start=amc[0][0]), "apply_replication/updates-before-mutations", site_of(ar), "mutate messages are applied before update messages")


def r6_tick_buffers(ctx):
    F = ctx.F
    sr = ctx.fn("server::send_replication")
    tr = tracer(sr)
    calls = {}
    for bb, t in sr.calls():
        calls.setdefault(callee_decl(t), []).append((bb, t))
    def one(sfx):
        r = [v for k, v in calls.items() if k.endswith(sfx)]
        return r[0][0][0] if r else None
    clear_rb = one("RemovalBuffer::clear")
    cc, cr, cd, cm, smsg = one("server::collect_changes"), one("server::collect_removals"), one("server::collect_despawns"), one("server::collect_mappings"), one("server::send_messages")
    if None in (clear_rb, cc, cr, cd, smsg):
        ctx.bad("send_replication/anchors", site_of(sr), "collect/clear/send calls not all found", kind="anchor-missing")
        return
    ctx.check(sr.dominates(cc, clear_rb) and sr.dominates(cr, clear_rb), "send_replication/removals-cleared-after-last-reader", site_of(sr, clear_rb),
              "the removal buffer is cleared before collect_removals/collect_changes have read it")
    ctx.check(len([1 for k, v in calls.items() if k.endswith("RemovalBuffer::clear") for _ in v]) == 1 and not sr.loops_containing(clear_rb), "send_replication/removals-cleared-once", site_of(sr, clear_rb), "")
    # cleared on every path on which the messages of this tick are sent
    ctx.check(sr.dominates(clear_rb, smsg), "send_replication/removals-cleared-before-send", site_of(sr, clear_rb), "messages are sent on a path on which the removal buffer was not cleared (removals would be sent again next tick)")
    # despawn buffer drained by collect_despawns
    cdf = ctx.fn("server::collect_despawns")
    dr = [(bb, t) for bb, t in cdf.calls() if callee_decl(t).endswith("Vec::<T, A>::drain")]
    ok = False
    for bb, t in dr:
        src = tracer(cdf).operand(t["args"][0])
        if any(x.kind == "param" and "DespawnBuffer" in cdf.locals[x.data]["ty"] for x in src) and not required_outcomes(F, cdf, bb):
            ok = True
    ctx.check(ok, "collect_despawns/drains-despawn-buffer", site_of(cdf), "buffered despawns are read without being drained (they would be sent again next tick)")
    # per-client buffers cleared before any collection
    clears = [(bb, t) for k, v in calls.items() if k in (UPD + "::clear", MUT + "::clear") for (bb, t) in v]
    ctx.check(len(clears) == 2, "send_replication/per-client-clear", site_of(sr), "%d clear() calls on the per-client buffers" % len(clears))
    for bb, t in clears:
        loops = sr.loops_containing(bb)
        ok = bool(loops) and all(c_ not in min(loops, key=lambda x: len(x[1]))[1] for c_ in (cm, cd, cr, cc) if c_ is not None) and \
            all(sr.dominates(min(loops, key=lambda x: len(x[1]))[0], c_) for c_ in (cm, cd, cr, cc) if c_ is not None)
        g = [x for x in required_outcomes(F, sr, bb) if not is_next_switch(sr, x[1])]
        ctx.check(ok and not g, "send_replication/%s-before-collection" % short(callee_decl(t)).rsplit("::", 2)[-2], site_of(sr, bb), "per-client buffers are not cleared (for every client) before this tick's data is collected")
    sc = [bb for k, v in calls.items() if k.endswith("SerializedData::clear") for (bb, t) in v]
    for k, v in calls.items():
        if k.endswith("Vec::<T, A>::clear"):
            for (bb, t) in v:
                if any(x.kind == "param" and "SerializedData" in sr.locals[x.data]["ty"] for x in tr.operand(t["args"][0])):
                    sc.append(bb)
    ctx.check(len(sc) == 1 and sr.dominates(smsg, sc[0]), "send_replication/serialized-cleared-after-send", site_of(sr), "the shared serialisation buffer is cleared before the messages referencing it are sent")
    # order of collection: mappings, despawns, removals, changes (later stages read what earlier ones produced)
    order = [x for x in (cm, cd, cr, cc) if x is not None]
    ctx.check(all(sr.dominates(a, b) for a, b in zip(order, order[1:])), "send_replication/collection-order", site_of(sr), "collection stages are not executed in a fixed dominating order")
    # buffer_removals runs every frame before send_replication (so nothing is missed between ticks)
    from schedule import schedule
    S = schedule(F)
    br = S.system("server::buffer_removals")
    srs = S.system("server::send_replication")
    ok = len(br) == 1 and len(srs) == 1 and br[0]["chains"] and srs[0]["chains"] and br[0]["chains"][0][0] == srs[0]["chains"][0][0] and br[0]["chains"][0][1] < srs[0]["chains"][0][1] \
        and not any("resource_changed" in c for c in br[0]["run_if"])
    ctx.check(ok, "buffer_removals/every-frame-before-replication", "", "removals are not buffered every frame ahead of replication: %s" % [(e["run_if"], e["chains"]) for e in br])
    bd = [o for o in S.observers if o["handler"].endswith("server::buffer_despawns")]
    ctx.check(len(bd) == 1 and bd[0]["event"].endswith("OnRemove") and bd[0]["bundle"].endswith("Replicated"), "buffer_despawns/on-marker-removal", "", "despawn buffering is not wired to OnRemove<Replicated>")


def _result_used(body, bb):
    t = body.blocks[bb].term
    d = t.get("dest")
    if not d or d["p"]:
        return True
    l = d["l"]
    for b in body.blocks:
        if b.idx not in body.reach:
            continue
        for st in b.stmts:
            if st["s"] == "assign":
                if _mentions(st["rvalue"], l):
                    return True
        tt = b.term
        if tt["t"] == "call" and any(_op_mentions(a, l) for a in tt["args"]):
            return True
        if tt["t"] == "switch" and _op_mentions(tt["discr"], l):
            return True
    return False


def _op_mentions(op, l):
    pl = op.get("place")
    return bool(pl) and pl["l"] == l


def _mentions(rv, l):
    for k in ("op", "a", "b"):
        if isinstance(rv.get(k), dict) and _op_mentions(rv[k], l):
            return True
    if rv.get("place") and rv["place"]["l"] == l:
        return True
    return any(_op_mentions(o, l) for o in rv.get("ops", []))


ACCUMULATORS = [(RB, "removals", "filled by buffer_removals every frame, flushed by send_replication on ticks")]


def r7_accumulate(ctx):
    F = ctx.F
    n = 0
    for adt, field, why in ACCUMULATORS:
        for b in F.real_fns():
            if "::tests::" in b.path or b.crate != "bevy_replicon":
                continue
            tr = tracer(b)
            for bb, t in b.calls():
                d = callee_decl(t)
                if d.rsplit("::", 1)[-1] != "insert" or not ("HashMap" in d or "hash_map" in d) or not t["args"]:
                    continue
                recv = tr.operand(t["args"][0])
                if not any(any(e[0] == "f" and e[2] == field and e[3] == adt for e in x.path) for x in recv):
                    continue
                n += 1
                key = tr.operand(t["args"][1])
                merged = _result_used(b, bb)
                how = "the previous value returned by insert() is used" if merged else None
                if not merged:
                    for b2, t2 in b.calls():
                        m2 = callee_decl(t2).rsplit("::", 1)[-1]
                        if m2 in ("remove", "get", "get_mut", "entry", "remove_entry", "contains_key") and t2["args"] and b.dominates(b2, bb):
                            r2 = tr.operand(t2["args"][0])
                            if any(any(e[0] == "f" and e[2] == field and e[3] == adt for e in x.path) for x in r2):
                                k2 = tr.operand(t2["args"][1]) if len(t2["args"]) > 1 else set()
                                if {(x.kind, x.data) for x in k2} & {(x.kind, x.data) for x in key}:
                                    merged = True
                                    how = "%s(key) precedes the insert" % m2
                ctx.check(merged, "%s/%s.%s-merges" % (short(b.path), short(adt).rsplit("::", 1)[-1], field), site_of(b, bb),
                          "`%s.%s` (%s) is written with insert(key, value) that discards what an earlier frame of the same tick window stored for that key: "
                          "e.g. a component removed in one frame is forgotten when another component of the same entity is removed in a later frame before the tick" % (short(adt), field, why), how)
    if n == 0:
        ctx.bad("accumulators", "", "no keyed write into a cross-frame accumulator found", kind="anchor-missing")
    # vector accumulators only ever push between ticks
    db = ctx.fn("server::buffer_despawns")
    pushes = [bb for bb, t in db.calls() if callee_decl(t).endswith("Vec::<T, A>::push")]
    ctx.check(len(pushes) == 1, "buffer_despawns/pushes", site_of(db), "despawns are not appended to the buffer")


def r8_channels(ctx):
    F = ctx.F
    CH = "bevy_replicon::shared::backend::channels::"
    fr = [b for p, b in F.fns.items() if p.startswith("<" + CH + "Channel as core::convert::From<" + CH + "ServerChannel>>::from")]
    if not fr:
        ctx.bad("ServerChannel->Channel", "", "conversion not found", kind="anchor-missing")
        return
    b = fr[0]
    table = {}
    for dec, ret in decision_paths(F, b):
        v = [x for (adt, x) in dec if adt == "ServerChannel"]
        if v:
            table.setdefault(v[-1], set()).add(ret)
    ctx.check(table.get("Updates") == {"Ordered"}, "ServerChannel::Updates/reliable-ordered", site_of(b),
              "update messages travel over %s: structural changes could be lost or reordered (the test link is perfect, so no test notices)" % table.get("Updates"), str(table))
    ctx.check(table.get("Mutations") in ({"Unreliable"}, {"Unordered"}, {"Ordered"}), "ServerChannel::Mutations/mapped", site_of(b), str(table))
    fc = [b2 for p, b2 in F.fns.items() if p.startswith("<" + CH + "Channel as core::convert::From<" + CH + "ClientChannel>>::from")]
    if fc:
        t2 = {}
        for dec, ret in decision_paths(F, fc[0]):
            t2.setdefault("MutationAcks", set()).add(ret)
        ctx.check(t2.get("MutationAcks") <= {"Ordered", "Unordered"}, "ClientChannel::MutationAcks/reliable", site_of(fc[0]), "acks travel over %s" % t2)
    # channel ids (enum discriminants) index the default channel table in the same order
    a = ctx.adt(CH + "ServerChannel")
    disc = {v["name"]: v["discr"] for v in a["variants"]}
    df = [b2 for p, b2 in F.fns.items() if p.startswith("<" + CH + "RepliconChannels as core::default::Default>::default")]
    order = []
    if df:
        d = df[0]
        dtr = tracer(d)
        for bb in d.rpo:
            t = d.blocks[bb].term
            if t["t"] == "call" and callee_decl(t).endswith("Into::into") and any("ServerChannel" in a_ for a_ in t["callee"]["args"]):
                for o in dtr.operand(t["args"][0]):
                    if o.kind == "stmt":
                        rv = d.blocks[o.data[0]].stmts[o.data[1]]["rvalue"]
                        if rv["rv"] == "agg":
                            order.append(rv["variant"])
    ctx.check(order == sorted(disc, key=lambda k: disc[k]) and len(order) == len(disc), "RepliconChannels::default/ids-match-table", "",
              "default server channels are created in order %s but ServerChannel ids are %s: messages would travel on the wrong channel" % (order, disc), str(order))
    fu = [b2 for p, b2 in F.fns.items() if p.startswith("<usize as core::convert::From<" + CH + "ServerChannel>>::from")]
    if fu:
        casts = [s for _, _, s in fu[0].statements() if s["s"] == "assign" and (s["rvalue"]["rv"] in ("cast", "discr"))]
        ctx.check(bool(casts) and not fu[0].calls_to("::").__next__() if False else bool(casts), "ServerChannel->usize/discriminant", site_of(fu[0]), "channel id is not the enum discriminant")


def r9_ack_lists(ctx):
    import rules.C10 as C10
    C10.r1_boundaries(ctx)


def r10_first_sight(ctx):
    from rules.first_sight import r_first_sight
    r_first_sight(ctx)


def r11_withheld_change_pending(ctx):
    """A change that the send rate withholds on this tick must stay pending. The baseline against which changes are detected is kept
    per *entity* (ClientTicks::mutation_tick(entity)); it advances when any mutate message containing the entity is acknowledged and
    when the entity gets an update record. If the path `changed since the baseline, but the send rate says not now` leaves no trace
    (no call at all between the send-rate test and the join), the next acknowledgement for the entity moves the baseline past the
    withheld change and it is never sent."""
    F = ctx.F
    cc = ctx.fn("server::collect_changes")
    adds = [bb for bb, t in cc.calls() if callee_decl(t) == MUT + "::add_component"]
    if not adds:
        ctx.bad("collect_changes/add_component", site_of(cc), "no mutation write found", kind="anchor-missing")
        return
    g = required_outcomes(F, cc, adds[0])
    changed = [(s_, c) for (s_, c, o) in g if c["kind"] == "boolcall" and c["name"].endswith("ComponentTicks::is_changed") and o == {True}]
    rate = [(s_, c) for (s_, c, o) in g if c["kind"] == "boolcall" and c["name"].endswith("SendRate::send_mutations") and o == {True}]
    if not ctx.check(bool(changed) and bool(rate), "collect_changes/changed-and-rate-tests", site_of(cc, adds[0]), "the mutation write is not gated by is_changed(..) and send_mutations(..) tests"):
        return
    # premise 1: the baseline is keyed by the entity only
    mt = ctx.fn("client_ticks::ClientTicks::mutation_tick")
    per_entity = len(mt.j.get("inputs", [])) == 2
    ctx.note("baseline granularity: ClientTicks::mutation_tick takes %d argument(s) besides self" % (len(mt.j.get("inputs", [])) - 1))
    s_rate = rate[0][0]
    s_chg = changed[0][0]
    # the send-rate test sits behind the changed test (otherwise `withheld` is not distinguishable from `unchanged` anyway)
    from flow import edge_outcome, switch_cond
    c = switch_cond(cc, s_rate)
    t_true = [t for (t, lab) in cc.succ[s_rate] if edge_outcome(F, cc, s_rate, lab, c) is True]
    t_false = [t for (t, lab) in cc.succ[s_rate] if edge_outcome(F, cc, s_rate, lab, c) is False]
    if not (t_true and t_false):
        ctx.bad("collect_changes/send-rate-edges", site_of(cc, s_rate), "cannot tell the edges of the send-rate test apart", kind="anchor-missing")
        return

    def reach(start, stop):
        seen, work = set(), [start]
        while work:
            x = work.pop()
            if x in seen or x in stop:
                continue
            seen.add(x)
            work += [t for (t, _) in cc.succ[x]]
        return seen
    loop = min(cc.loops_containing(s_rate), key=lambda hb: len(hb[1]))
    stop = {loop[0]}
    only_false = reach(t_false[0], stop) - reach(t_true[0], stop)
    effects = [(bb, callee_decl(cc.blocks[bb].term)) for bb in sorted(only_false) if cc.blocks[bb].term["t"] == "call"]
    ordered = cc.dominates(s_chg, s_rate)
    ok = (not per_entity) or (ordered and bool(effects))
    ctx.check(ok, "collect_changes/withheld-change-stays-pending", site_of(cc, s_rate),
              "a component changed since the client's baseline but withheld by its send rate leaves no trace (the `send rate says no` edge does nothing), while the baseline is "
              "kept per entity: once another component of the entity is acknowledged - or the entity gets an update record - the baseline moves past the withheld change "
              "and the client never receives it (documented behaviour: `any mutation will be replicated every N-th tick`)",
              "withheld path records: %s" % [short(e[1]) for e in effects] if effects else "baseline is per component")


def r20_unconditional_mutators(ctx):
    """Mutators this property relies on always perform their effect (shared table in rules/mutators.py)."""
    import rules.mutators as mutators
    mutators.run_for(ctx, "C01")


def r_visibility_state_machine(ctx):
    """Visibility loss and gain are turned into a despawn and a full send for every call sequence (same rule as C08.R5: finite abstract
    interpretation of ClientVisibility plus the call protocol it assumes)."""
    import rules.C08 as C08
    C08.r5_state_machine(ctx)


def r13_ack_list_starts_empty(ctx):
    """Recycled acknowledgement entity lists are empty when reused (same rule as C11.R6)."""
    import rules.C11 as C11
    C11.r6_ack_list_pool(ctx)


RULES = [
    ("C01.R1", "mutations are (re)sent iff changed since the client's per-entity baseline and the send rate allows", r1_resend_baseline, 4, ["default", "all-features", "server-only"]),
    ("C01.R2", "acknowledgement: recorded tick, known message, forward-only (same rule as C11.R2)", r2_ack, 6, ["default", "all-features", "server-only"]),
    ("C01.R3", "one clock: detection bound, baseline bump and registered tick are the system's this_run", r3_one_clock, 6, ["default", "all-features", "server-only"]),
    ("C01.R4", "the client acknowledges exactly the messages it has consumed (same rule as C11.R4)", r4_client_acks, 8, ["default", "all-features", "client-only"]),
    ("C01.R5", "buffered mutate messages wait for their update tick; updates are applied first", r5_buffered_until_update_tick, 5, ["default", "all-features", "client-only"]),
    ("C01.R6", "tick-scoped buffers are consumed exactly once after their last reader", r6_tick_buffers, 10, ["default", "all-features", "server-only"]),
    ("C01.R7", "cross-frame accumulators merge keyed writes", r7_accumulate, 2, ["default", "all-features", "server-only"]),
    ("C01.R8", "update channel is reliable-ordered; channel ids match the channel table", r8_channels, 4, None),
    ("C01.R9", "an acknowledgement covers exactly the entities whose data travelled in that message (same rule as C10.R1)", r9_ack_lists, 12, ["default", "all-features", "server-only"]),
    ("C01.R10", "first-sight completeness (rules/first_sight.py): which conditions discard the baseline and force a full send", r10_first_sight, 14, ["default", "all-features", "server-only"]),
    ("C01.R11", "a change withheld by the send rate stays pending (per-entity baseline must not pass it unnoticed)", r11_withheld_change_pending, 2, ["default", "all-features", "server-only"]),
    ("C01.R20", "mutators this property relies on always perform their effect (rules/mutators.py): no early return, no guard outside the allowed set", r20_unconditional_mutators, 2, ["default", "all-features"]),
    ("C01.R12", "visibility loss/gain become despawn/full send for every call sequence (same rule as C08.R5)", r_visibility_state_machine, 25, ["default", "all-features", "server-only"]),
    ("C01.R13", "recycled acknowledgement entity lists are empty when reused: an ack never moves the baseline of entities of another message (same rule as C11.R6)", r13_ack_list_starts_empty, 1, ["default", "all-features", "server-only"]),
]
THOROUGH_CONFIGS = ["default", "all-features", "server-only", "client-only"]
