"""Finite abstract interpretation of the per-entity visibility state machine (used by C08.R5).

The abstract state of one tracked entity `e` for one client is (policy, L, A, R): L = the entry of `e` in
ClientVisibility.list (None = absent, else the info variant name), A = e in `added`, R = e in `removed`. The
methods of ClientVisibility are executed *abstractly on their MIR* from every abstract state, with small models of
the hash-map / hash-set / Option / iterator API for the single tracked key. Nothing is run: the interpreter walks
the CFG facts; an operation it has no model for raises Unmodelled (reported as anchor-missing, fail closed)."""
from facts import callee_decl, callee_name, op_place

VIS = "bevy_replicon::server::client_visibility::"


class Unmodelled(Exception):
    pass


class St:
    __slots__ = ("policy", "L", "A", "R")

    def __init__(self, policy, L=None, A=False, R=False):
        self.policy, self.L, self.A, self.R = policy, L, A, R

    def copy(self):
        return St(self.policy, self.L, self.A, self.R)

    def key(self):
        return (self.policy, self.L, self.A, self.R)

    def __repr__(self):
        return "%s[list=%s added=%s removed=%s]" % (self.policy, self.L or "-", int(self.A), int(self.R))


ENUM_DISCR = {}


def enum_discr(F, adt, variant):
    k = (adt, variant)
    if k not in ENUM_DISCR:
        a = F.adts.get(adt)
        if a:
            for v in a["variants"]:
                ENUM_DISCR[(adt, v["name"])] = v.get("discr", v["idx"])
    return ENUM_DISCR.get(k)


class Interp:
    def __init__(self, F):
        self.F = F
        self.steps = 0

    # ------------------------------------------------------------------ values
    def discr_of(self, v, st):
        k = v[0]
        if k == "fld" and v[1] == "list":
            return enum_discr(self.F, VIS + "VisibilityList", st.policy)
        if k == "entry":
            return 0 if v[1] == "occ" else 1
        if k == "opt":
            return 0 if v[1] is None else 1
        if k == "info":
            return enum_discr(self.F, v[2], v[1])
        if k == "slot":
            if st.L is None:
                raise Unmodelled("dereference of a vacant slot")
            return enum_discr(self.F, VIS + ("BlacklistInfo" if st.policy == "Blacklist" else "WhitelistInfo"), st.L)
        if k == "bool":
            return 1 if v[1] else 0
        if k == "int":
            return v[1]
        raise Unmodelled("discriminant of %s" % (v,))

    def info_name(self, v, st):
        if v[0] == "info":
            return v[1]
        if v[0] == "slot":
            return st.L
        raise Unmodelled("not an info value: %s" % (v,))

    def place(self, body, env, st, pl):
        v = env.get(pl["l"], ("unk",))
        for e in pl["p"]:
            if e == "deref" or isinstance(e, str):
                continue
            if "f" in e:
                if v[0] == "self":
                    v = ("fld", e.get("name"))
                elif v[0] == "tuple":
                    v = v[1][e["f"]]
                elif v[0] in ("opt",) and v[1] is not None:
                    v = v[1]
                elif v[0] == "fld" and v[1] == "list":
                    v = ("map",)
                elif v[0] == "entry":
                    v = ("occentry",) if v[1] == "occ" else ("vacentry",)
                elif v[0] in ("key", "occentry", "vacentry", "map", "slot", "info", "iter"):
                    pass
                else:
                    v = ("unk",)
            elif "downcast" in e:
                pass
        return v

    def operand(self, body, env, st, op):
        if op.get("k") == "const":
            if "val" in op:
                if op["ty"] == "bool":
                    return ("bool", bool(op["val"]))
                return ("int", op["val"])
            if "promoted" in op:
                pb = body.promoted[op["promoted"]]
                for _, _, s in pb.statements():
                    if s["s"] == "assign" and s["rvalue"]["rv"] == "agg" and s["rvalue"]["kind"] == "adt":
                        return ("info", s["rvalue"]["variant"], s["rvalue"]["adt"])
                return ("unk",)
            return ("unit",) if op.get("ty") == "()" else ("unk",)
        return self.place(body, env, st, op["place"])

    # --------------------------------------------------------------- execution
    def run(self, path, args, st):
        """-> list of (return value, St). Forks on unknown booleans."""
        body = self.F.fns.get(path)
        if body is None:
            raise Unmodelled("no body for " + path)
        env0 = {i + 1: a for i, a in enumerate(args)}
        out = []
        work = [(0, env0, st.copy())]
        while work:
            bb, env, s = work.pop()
            while True:
                self.steps += 1
                if self.steps > 200000:
                    raise Unmodelled("step limit")
                blk = body.blocks[bb]
                for stt in blk.stmts:
                    if stt["s"] != "assign":
                        continue
                    pl = stt["place"]
                    val = self.rvalue(body, env, s, stt["rvalue"])
                    if not pl["p"]:
                        env[pl["l"]] = val
                    elif pl["p"] == ["deref"] or all(isinstance(e, str) for e in pl["p"]):
                        # store through a reference: only slots of the tracked key matter
                        tgt = env.get(pl["l"], ("unk",))
                        if tgt[0] == "slot":
                            s.L = self.info_name(val, s)
                        elif tgt[0] in ("fld", "map", "self"):
                            raise Unmodelled("wholesale store into %s" % (tgt,))
                    else:
                        base = env.get(pl["l"], ("unk",))
                        if base[0] == "self":
                            raise Unmodelled("field store on self")
                t = blk.term
                k = t["t"]
                if k == "goto" or k == "drop" or k == "assert":
                    bb = t["target"]
                    continue
                if k == "return":
                    out.append((env.get(0, ("unit",)), s))
                    break
                if k == "switch":
                    d = self.operand(body, env, s, t["discr"])
                    if d[0] in ("unk", "boolU"):
                        for (tb, lab) in body.succ[bb][1:]:
                            work.append((tb, dict(env), s.copy()))
                        bb = body.succ[bb][0][0]
                        continue
                    n = self.discr_of(d, s) if d[0] not in ("int", "bool") else (d[1] if d[0] == "int" else (1 if d[1] else 0))
                    tgt = None
                    for v, tb in t["targets"]:
                        if v == n:
                            tgt = tb
                    if tgt is None:
                        tgt = t["otherwise"]
                    bb = tgt
                    continue
                if k == "call":
                    ret = self.call(body, env, s, t)
                    if t.get("dest") and not t["dest"]["p"]:
                        env[t["dest"]["l"]] = ret
                    if t["target"] is None:
                        break
                    bb = t["target"]
                    continue
                if k == "unreachable":
                    break
                raise Unmodelled("terminator " + k)
        return out

    def rvalue(self, body, env, st, rv):
        k = rv["rv"]
        if k == "use":
            return self.operand(body, env, st, rv["op"])
        if k in ("ref", "rawptr"):
            return self.place(body, env, st, rv["place"])
        if k == "discr":
            return ("int", self.discr_of(self.place(body, env, st, rv["place"]), st))
        if k == "agg":
            if rv["kind"] == "adt":
                if rv["adt"].startswith(VIS) and not rv["ops"]:
                    return ("info", rv["variant"], rv["adt"])
                if rv["adt"] == "core::option::Option":
                    return ("opt", None if rv["variant"] == "None" else self.operand(body, env, st, rv["ops"][0]))
                return ("unk",)
            if rv["kind"] == "tuple":
                return ("tuple", [self.operand(body, env, st, o) for o in rv["ops"]]) if rv["ops"] else ("unit",)
            return ("unk",)
        if k == "un" and rv["op"] == "Not":
            a = self.operand(body, env, st, rv["a"])
            return ("bool", not a[1]) if a[0] == "bool" else ("boolU",)
        if k == "bin" and rv["op"] in ("Eq", "Ne"):
            a, b = self.operand(body, env, st, rv["a"]), self.operand(body, env, st, rv["b"])
            if a[0] in ("int", "bool") and b[0] in ("int", "bool"):
                r = (a[1] == b[1])
                return ("bool", r if rv["op"] == "Eq" else not r)
            return ("boolU",)
        if k == "cast":
            return self.operand(body, env, st, rv["op"])
        return ("unk",)

    def _member(self, st, fld):
        return st.A if fld == "added" else st.R

    def _set_member(self, st, fld, val):
        if fld == "added":
            st.A = val
        else:
            st.R = val

    def call(self, body, env, st, t):
        decl = callee_decl(t)
        name = callee_name(t)
        m = decl.rsplit("::", 1)[-1]
        args = [self.operand(body, env, st, a) for a in t.get("args", [])]
        a0 = args[0] if args else ("unk",)
        info_adt = VIS + ("BlacklistInfo" if st.policy == "Blacklist" else "WhitelistInfo")

        def old_info():
            return ("opt", None) if st.L is None else ("opt", ("info", st.L, info_adt))
        # transparent
        if m in ("deref", "deref_mut", "clone", "borrow", "borrow_mut", "as_ref", "as_mut", "into_iter", "by_ref", "into", "from", "copied", "cloned"):
            return a0
        # local methods of the analysed type
        if decl.startswith(VIS + "ClientVisibility::") and decl in self.F.fns:
            res = self.run(decl, args, st)
            if len(res) != 1:
                raise Unmodelled("nested call forked: " + decl)
            ret, s2 = res[0]
            st.L, st.A, st.R = s2.L, s2.A, s2.R
            return ret
        if "HashMap" in decl or "hash_map" in decl or "hashbrown::map" in decl:
            if a0[0] == "map" or a0[0] in ("entry", "occentry", "vacentry"):
                key_ok = len(args) < 2 or args[1][0] == "key" or a0[0] != "map"
                if m == "entry":
                    if args[1][0] != "key":
                        raise Unmodelled("entry() of another key")
                    return ("entry", "occ" if st.L is not None else "vac")
                if a0[0] == "occentry" and m == "remove":
                    o = ("info", st.L, info_adt)
                    st.L = None
                    return o
                if a0[0] == "occentry" and m == "remove_entry":
                    o = ("tuple", [("key",), ("info", st.L, info_adt)])
                    st.L = None
                    return o
                if a0[0] == "occentry" and m == "insert":
                    o = ("info", st.L, info_adt)
                    st.L = self.info_name(args[1], st)
                    return o
                if a0[0] == "occentry" and m in ("get", "get_mut", "into_mut"):
                    return ("slot",)
                if a0[0] == "vacentry" and m == "insert":
                    st.L = self.info_name(args[1], st)
                    return ("slot",)
                if a0[0] == "entry" and m == "or_insert":
                    if a0[1] == "vac":
                        st.L = self.info_name(args[1], st)
                    return ("slot",)
                if a0[0] == "entry" and m == "and_modify":
                    raise Unmodelled("Entry::and_modify")
                if a0[0] == "map" and not key_ok:
                    raise Unmodelled("map operation on another key: " + m)
                if a0[0] == "map" and m == "insert":
                    o = old_info()
                    st.L = self.info_name(args[2], st)
                    return o
                if a0[0] == "map" and m in ("remove",):
                    o = old_info()
                    st.L = None
                    return o
                if a0[0] == "map" and m in ("get", "get_mut"):
                    return ("opt", None) if st.L is None else ("opt", ("slot",))
                if a0[0] == "map" and m == "contains_key":
                    return ("bool", st.L is not None)
                raise Unmodelled("map method %s on %s" % (m, a0))
        if ("HashSet" in decl or "hash_set" in decl) and a0[0] == "fld" and a0[1] in ("added", "removed"):
            f = a0[1]
            if m == "insert":
                was = self._member(st, f)
                self._set_member(st, f, True)
                return ("bool", not was)
            if m == "remove":
                was = self._member(st, f)
                self._set_member(st, f, False)
                return ("bool", was)
            if m == "contains":
                return ("bool", self._member(st, f))
            if m == "clear":
                self._set_member(st, f, False)
                return ("unit",)
            if m == "drain":
                was = self._member(st, f)
                self._set_member(st, f, False)
                return ("iter", [("key",)] if was else [])
            if m in ("is_empty", "len", "iter"):
                return ("unk",)
            raise Unmodelled("set method %s" % m)
        if m == "next" and a0[0] == "iter":
            if a0[1]:
                v = a0[1].pop(0)
                return ("opt", v)
            return ("opt", None)
        if decl.endswith("Option::<T>::is_some"):
            return ("bool", a0[1] is not None) if a0[0] == "opt" else ("boolU",)
        if decl.endswith("Option::<T>::is_none"):
            return ("bool", a0[1] is None) if a0[0] == "opt" else ("boolU",)
        if decl in ("core::cmp::PartialEq::eq", "core::cmp::PartialEq::ne") or name.endswith("PartialEq>::eq") or name.endswith("PartialEq>::ne"):
            try:
                x, y = self.info_name(args[0], st), self.info_name(args[1], st)
            except Unmodelled:
                return ("boolU",)
            r = (x == y)
            return ("bool", r if m == "eq" else not r)
        # logging / formatting and everything that does not touch the tracked structures
        touched = [a for a in args if a[0] in ("fld", "map", "slot", "entry", "occentry", "vacentry", "self")]
        if touched and not (decl.startswith("log::") or decl.startswith("core::fmt")):
            raise Unmodelled("call %s with tracked argument %s" % (decl, touched[0]))
        return ("unk",)


# ---------------------------------------------------------------------------------------------------------------
def explore(F):
    """Explores the per-entity visibility state machine with ghost state (truth = most recent setting, had = the client
    holds the entity as of the last commit). -> (violations, stats). Each violation: dict(policy, invariant, state, step, trace)."""
    I = Interp(F)
    P = VIS + "ClientVisibility::"
    viol = {}
    stats = {"states": 0, "transitions": 0}

    def vis_of(st):
        (ret, s2), = I.run(P + "state", [("self",), ("key",)], st)
        return ret[1]

    def is_visible(st):
        (ret, s2), = I.run(P + "is_visible", [("self",), ("key",)], st)
        return ret[1]

    for policy, default in (("Blacklist", True), ("Whitelist", False)):
        init = (St(policy), default, default)
        seen = {}
        work = [(init, ())]
        while work:
            (st, truth, had), trace = work.pop(0)
            k = (st.key(), truth, had)
            if k in seen:
                continue
            seen[k] = trace
            stats["states"] += 1

            def report(inv, step, detail):
                key = (policy, inv, repr(st), int(truth), int(had), step)
                if key not in viol:
                    viol[key] = {"policy": policy, "invariant": inv, "state": repr(st), "truth_visible": truth, "client_has": had,
                                 "step": step, "trace": list(trace) + [step], "detail": detail}

            # invariant checked in every reachable state: the query is truthful
            if is_visible(st) != truth:
                report("query-truthful", "is_visible", "is_visible() reports %s but the most recent setting is %s" % (is_visible(st), truth))
            # --- set_visibility(e, v)
            for v in (True, False):
                for (ret, s2) in I.run(P + "set_visibility", [("self",), ("key",), ("bool", v)], st):
                    stats["transitions"] += 1
                    work.append(((s2, v, had), trace + ("set_visibility(%s)" % str(v).lower(),)))
            # --- tick: drain_lost, state, update
            s = st.copy()
            (ret, s), = I.run(P + "drain_lost", [("self",)], s)
            lost = bool(ret[0] == "iter" and ret[1])
            vis = vis_of(s)
            (ret, s), = I.run(P + "update", [("self",)], s)
            stats["transitions"] += 1
            if had and not truth and not lost:
                report("loss-reported", "tick", "the client holds the entity, it is hidden now, but the tick does not report it as lost (no despawn is sent)")
            if lost and truth:
                report("no-spurious-loss", "tick", "the entity is visible but the tick reports it as lost: the client is told to despawn it while it %s" % (
                    "is re-sent as new" if vis == "Gained" else "is treated as already present (no full re-send)"))
            if truth and (not had or lost) and vis != "Gained":
                report("gain-delivers-whole-entity", "tick", "the entity is visible, the client does not hold it (or was just told to despawn it), but state() is %s, so only changes are sent" % vis)
            if vis == "Gained" and had and not lost and "gained-while-held" not in stats:
                # not a violation by itself (a redundant full re-send); recorded as a lemma other rules may rely on
                stats["gained-while-held"] = "%s: %s" % (policy, " ; ".join(trace + ("tick",)))
            if (vis != "Hidden") != truth:
                report("state-truthful-at-tick", "tick", "state() = %s although the most recent setting is visible=%s" % (vis, truth))
            work.append(((s, truth, truth), trace + ("tick",)))
            # --- despawn of the entity on the server (collect_despawns: is_visible -> despawn record; remove_despawned; later drain_lost)
            s = st.copy()
            sent = is_visible(s)
            (ret, s), = I.run(P + "remove_despawned", [("self",), ("key",)], s)
            (ret, s), = I.run(P + "drain_lost", [("self",)], s)
            lost = bool(ret[0] == "iter" and ret[1])
            stats["transitions"] += 1
            if had and not (sent or lost):
                report("despawn-reported", "despawn", "the client holds the entity and it is despawned on the server while hidden since the last tick: neither a despawn nor a lost-visibility record is sent")
            if (s.L, s.A, s.R) != (None, False, False):
                report("despawn-forgets-entity", "despawn", "state for the despawned entity remains: %r" % s)
    return list(viol.values()), stats


INFOS = {"Blacklist": (None, "Hidden", "QueuedForRemoval"), "Whitelist": (None, "Visible", "JustAdded")}


def tables(F):
    """Evaluates the two pure queries in *every* abstract state (reachable or not):
    -> (state_table {(policy, list entry): {Visibility}}, query_table {Visibility: {is_visible result}})."""
    I = Interp(F)
    P = VIS + "ClientVisibility::"
    st_table, q_table = {}, {}
    for policy, infos in INFOS.items():
        for L in infos:
            for A in (False, True):
                for R in (False, True):
                    st = St(policy, L, A, R)
                    res = I.run(P + "state", [("self",), ("key",)], st.copy())
                    for ret, _ in res:
                        st_table.setdefault((policy, L or "-"), set()).add(ret[1])
                    res2 = I.run(P + "is_visible", [("self",), ("key",)], st.copy())
                    for ret, _ in res:
                        for ret2, _ in res2:
                            q_table.setdefault(ret[1], set()).add(ret2[1])
    return st_table, q_table
