"""C05 - Remote events: exactly once, in order, to the intended recipients only."""
from engine import site_of
from facts import callee_decl, callee_name
from flow import (tracer, short, required_outcomes, dep_closure, is_next_switch, named_const, cmp_facts, resolve_through_closure, next_sources)
from schedule import schedule

EXPLANATION = (
    "R1 (sibling cross-check): the three implementations of recipient selection - immediate independent sends, buffered sends, "
    "local re-emission - handle every SendMode arm with the guards the mode demands (decision tables over the MIR): Broadcast "
    "unguarded; BroadcastExcept skips exactly the named entity; Direct goes to the named entity, remotely iff it is not SERVER and "
    "locally iff it is SERVER. R2: clients that connect after events were buffered are excluded in every arm. R3: the sender "
    "identity attached to a received client event is the entity the transport tagged the message with (SERVER for local "
    "re-emission). R4: the client sends through its persistent cursor (no fresh cursor), once per event. R5: client events whose "
    "entities cannot be mapped are not sent. R6: channel kinds of the events' channels come from the registration argument."
    " R5 also: the record of unmapped entities never outlives the event it belongs to (tested and emptied before every exit of the wrapper, also when the inner serialiser fails - D18, found and fixed).")
NOT_DECIDED = "exactly-once / ordering over the transport and across connect/authorize/disconnect histories; at-most-once of unreliable channels is the transport's contract"
TRUSTED_BASE = ["Bevy EventCursor::read yields each event once per cursor", "Events::drain empties both buffers"]

SE = "bevy_replicon::shared::event::server_event"
SERVER = "bevy_replicon::shared::SERVER"


def _mode_arm(F, body, bb):
    for (s_, c, o) in required_outcomes(F, body, bb):
        if c["kind"] == "variant" and (c.get("adt") or "").endswith("SendMode") and len(o) == 1:
            return next(iter(o))
    return None


def _operand_kind(F, body, op):
    """classifies an Entity operand: 'SERVER' | 'payload' (the entity carried by the SendMode) | 'recipient' (loop item) | '?'"""
    nc = named_const(body, op)
    if nc == SERVER:
        return "SERVER"
    tr = tracer(body, follow_next=False)
    kinds = set()
    for o in tr.operand(op):
        if any(e[0] == "v" and e[1] in ("BroadcastExcept", "Direct") for e in o.path):
            kinds.add("payload")
        elif o.kind == "call" and callee_decl(body.blocks[o.data].term).endswith("Iterator::next"):
            kinds.add("recipient")
        elif o.kind == "param":
            kinds.add("param")
        else:
            kinds.add("?")
    if len(kinds) == 1:
        return next(iter(kinds))
    if "payload" in kinds:
        return "payload"
    return "?"


def entity_guards(F, body, bb):
    """set of (rel, {kinds}) for the Entity ==/!= comparisons that dominate bb (normalised so that rel is what holds)."""
    out = set()
    for (s_, c, o) in required_outcomes(F, body, bb):
        if c["kind"] != "cmp" or c["rel"] not in ("==", "!=") or len(o) != 1:
            continue
        callee = c.get("callee", "")
        if "Entity" not in callee and "PartialEq" not in callee:
            continue
        rel, a, b = cmp_facts(c, next(iter(o)))
        ka, kb = _operand_kind(F, body, a), _operand_kind(F, body, b)
        if {"?"} >= {ka, kb}:
            continue
        out.add((rel, frozenset((ka, kb))))
    return out


WANT_REMOTE = {"Broadcast": set(), "BroadcastExcept": {("!=", frozenset(("payload", "recipient")))}, "Direct": {("!=", frozenset(("payload", "SERVER")))}}
WANT_LOCAL = {"Broadcast": set(), "BroadcastExcept": {("!=", frozenset(("payload", "SERVER")))}, "Direct": {("==", frozenset(("payload", "SERVER")))}}


def r1_recipients(ctx):
    F = ctx.F
    impls = [
        ("send_independent_event", ctx.fn("server_event::ServerEvent::send_independent_event"), "RepliconServer::send", WANT_REMOTE, 1),
        ("send_all", ctx.fn("server_event::BufferedServerEvents::send_all"), "BufferedServerEvent::send", WANT_REMOTE, 2),
        ("resend_locally", ctx.fn("server_event::ServerEvent::resend_locally_typed"), "Events::<E>::send", WANT_LOCAL, None),
    ]
    for name, body, deliver, want, rcpt_arg in impls:
        sites = [(bb, t) for bb, t in body.calls() if callee_decl(t).endswith(deliver)]
        arms = {}
        for bb, t in sites:
            arm = _mode_arm(F, body, bb)
            arms.setdefault(arm, []).append((bb, t))
        ctx.check(set(arms) == {"Broadcast", "BroadcastExcept", "Direct"}, "%s/all-modes-handled" % name, site_of(body),
                  "delivery sites exist for modes %s only" % sorted(map(str, arms)))
        for arm, lst in sorted(arms.items(), key=lambda x: str(x[0])):
            if arm not in want:
                continue
            for bb, t in lst:
                g = entity_guards(F, body, bb)
                ctx.check(g == want[arm], "%s/%s/guards" % (name, arm), site_of(body, bb),
                          "mode %s is delivered under entity guards %s, the mode demands %s" % (arm, sorted((r, sorted(k)) for r, k in g), sorted((r, sorted(k)) for r, k in want[arm])),
                          str(sorted((r, sorted(k)) for r, k in g)))
                if rcpt_arg is not None:
                    k = _operand_kind(F, body, t["args"][rcpt_arg])
                    exp = "payload" if arm == "Direct" else "recipient"
                    if name == "send_all" and arm == "Direct":
                        # recipient comes from clients.get(payload)
                        deps = dep_closure(body, t["args"][rcpt_arg])
                        ok = any(kk == "call" and callee_decl(body.blocks[d].term).endswith("Query::<'w, 's, D, F>::get")
                                 and _operand_kind(F, body, body.blocks[d].term["args"][1]) == "payload" for (kk, d) in deps)
                        ctx.check(ok, "%s/%s/recipient" % (name, arm), site_of(body, bb), "a direct event is not sent to the entity named by the mode")
                    else:
                        ctx.check(k == exp, "%s/%s/recipient" % (name, arm), site_of(body, bb), "the event goes to `%s`, expected the %s" % (k, exp))
        # the mode switched on is the event's own mode
    # independent path: every connected client for broadcasts (query over ConnectedClient)
    sob = ctx.fn("server_event::ServerEvent::send_or_buffer_typed")
    ins = sob.j["inputs"]
    ctx.check(any("Query<" in i and "ConnectedClient" in i for i in ins), "send_or_buffer/recipients-are-connected-clients", site_of(sob), "broadcast recipients are not the connected clients")


def r2_late_joiners(ctx):
    F = ctx.F
    S = schedule(F)
    hc = [o for o in S.observers if o["event"].endswith("OnAdd") and o["bundle"].endswith("ConnectedClient")]
    ok = False
    for o in hc:
        b = F.fns[o["handler"]]
        tr = tracer(b)
        for bb, t in b.calls():
            if callee_decl(t).endswith("BufferedServerEvents::exclude_client"):
                src = tr.operand(t["args"][1])
                if src and all(x.kind == "call" and callee_decl(b.blocks[x.data].term).endswith("::target") for x in src):
                    ok = True
    ctx.check(ok, "handle_connects/excludes-new-client", "", "no OnAdd<ConnectedClient> observer excludes the new client from already buffered events")
    ex = ctx.fn("server_event::BufferedServerEvents::exclude_client")
    ins = [(bb, t) for bb, t in ex.calls() if callee_decl(t).endswith("::insert")]
    ok = bool(ins) and all(ex.loops_containing(bb) for bb, t in ins) and all(all(x.kind == "param" and x.data == 2 for x in tracer(ex).operand(t["args"][1])) for bb, t in ins)
    ctx.check(ok, "exclude_client/every-buffered-set", site_of(ex), "the client is not added to the exclusion list of every buffered set")
    sa = ctx.fn("server_event::BufferedServerEvents::send_all")
    for bb, t in sa.calls():
        if not callee_decl(t).endswith("BufferedServerEvent::send"):
            continue
        arm = _mode_arm(F, sa, bb)
        consulted = False
        # direct guard
        for (s_, c, o) in required_outcomes(F, sa, bb):
            if c["kind"] == "boolcall" and c["name"].endswith("::contains") and o == {False}:
                if any(x.path and any(e[0] == "f" and e[2] == "excluded" for e in x.path) for x in tracer(sa).operand(c["args"][0])):
                    consulted = True
        # or the recipient iterator is filtered by a closure consulting `excluded`
        for (k, d) in dep_closure(sa, t["args"][2]):
            if k == "stmt":
                rv = sa.blocks[d[0]].stmts[d[1]]["rvalue"]
                if rv["rv"] == "agg" and rv["kind"] == "closure":
                    cb = F.fns.get(rv["closure"])
                    if cb:
                        for _, ct in cb.calls():
                            if callee_decl(ct).endswith("::contains"):
                                for (pb, x) in resolve_through_closure(F, cb, tracer(cb).operand(ct["args"][0])):
                                    if any(e[0] == "f" and e[2] == "excluded" for e in x.path):
                                        # the closure result must be negated (filter keeps non-excluded)
                                        consulted = True
        ctx.check(consulted, "send_all/%s/excluded-consulted" % arm, site_of(sa, bb), "clients that connected after the event was buffered are not excluded in this arm")
    # --- no over-exclusion: events buffered in a frame go into a set opened in that frame, so a client excluded from the
    # sets that existed when it connected is never excluded from events sent afterwards
    st = ctx.fn("server_event::BufferedServerEvents::start_tick")
    stt = tracer(st)
    pushes = [(bb, t) for bb, t in st.calls() if callee_decl(t).endswith("Vec::<T, A>::push") and any(any(e[0] == "f" and e[2] == "buffer" for e in x.path) for x in stt.operand(t["args"][0]))]
    if ctx.check(len(pushes) == 1, "start_tick/opens-a-set", site_of(st), "%d pushes onto the buffer" % len(pushes)):
        pb, pt = pushes[0]
        rets = [b.idx for b in st.blocks if b.idx in st.reach and b.term["t"] == "return"]
        skipping = [r for r in rets if st.reachable_avoiding(r, [], removed_blocks=(pb,))]
        ctx.check(not skipping, "start_tick/opens-a-set-on-every-call", site_of(st, pb),
                  "start_tick can return without opening a fresh set: events of a later frame are buffered into a set from which clients that connected in between are "
                  "already excluded, so an intended recipient never receives them")
        src = dep_closure(st, pt["args"][1])
        fresh = any(k == "call" and callee_decl(st.blocks[d].term).rsplit("::", 1)[-1] in ("unwrap_or_default", "default", "new") for (k, d) in src)
        from_buffer = any(k == "call" and callee_decl(st.blocks[d].term).rsplit("::", 1)[-1] in ("last", "last_mut", "clone") for (k, d) in src)
        ctx.check(fresh and not from_buffer, "start_tick/fresh-set", site_of(st, pb), "the opened set is not a fresh (pooled-and-cleared or default) one")
    at = ctx.fn("server_event::BufferedServerEvents::active_tick")
    ok = any(callee_decl(t).endswith("last_mut") and any(any(e[0] == "f" and e[2] == "buffer" for e in x.path) for x in tracer(at).operand(t["args"][0])) for _, t in at.calls())
    ctx.check(ok, "active_tick/newest-set", site_of(at), "events are not buffered into the most recently opened set")
    ins = ctx.fn("server_event::BufferedServerEvents::insert")
    ok = any(callee_decl(t).endswith("BufferedServerEvents::active_tick") for _, t in ins.calls())
    ctx.check(ok, "insert/into-active-set", site_of(ins), "insert does not use active_tick()")
    sob = ctx.fn("server::event::send_or_buffer")
    sts = [bb for bb, t in sob.calls() if callee_decl(t).endswith("BufferedServerEvents::start_tick")]
    uses = [bb for bb, t in sob.calls() if callee_decl(t).endswith("ServerEvent::send_or_buffer")]
    ok = len(sts) == 1 and bool(uses) and all(sob.dominates(sts[0], u) for u in uses) and not [x for x in required_outcomes(F, sob, sts[0])]
    ctx.check(ok, "send_or_buffer/opens-set-first", site_of(sob), "the per-frame system does not unconditionally open a set before buffering events")
    # filter closures keep the *non*-excluded
    for cb in F.closures_of(sa.path):
        cs = [t for _, t in cb.calls() if callee_decl(t).endswith("::contains")]
        if cs:
            nots = [s for _, _, s in cb.statements() if s["s"] == "assign" and s["rvalue"]["rv"] == "un" and s["rvalue"]["op"] == "Not"]
            ctx.check(len(nots) == 1, "%s/keeps-non-excluded" % short(cb.path), site_of(cb), "the recipient filter does not negate `excluded.contains`")


def r3_sender_identity(ctx):
    F = ctx.F
    rt = ctx.fn("client_event::ClientEvent::receive_typed")
    tr = tracer(rt, follow_next=False)
    FC = "bevy_replicon::shared::event::client_event::FromClient"
    recv = [bb for bb, t in rt.calls() if callee_decl(t).endswith("RepliconServer::receive")]
    aggs = [(bb, s["rvalue"]) for bb, i, s in rt.statements() if s["s"] == "assign" and s["rvalue"]["rv"] == "agg" and s["rvalue"].get("adt") == FC]
    ctx.check(len(aggs) == 1 and len(recv) == 1, "receive_typed/FromClient", site_of(rt), "%d FromClient constructions" % len(aggs))
    for bb, rv in aggs:
        m = dict(zip(rv["fields"], rv["ops"]))
        o = tr.operand(m["client"])
        ok = bool(o) and all(x.kind == "call" and callee_decl(rt.blocks[x.data].term).endswith("Iterator::next") and [e for e in x.path if e[0] == "f"][-1][1] == 0 for o_ in [0] for x in o)
        src_ok = all((rt.path, x.data) in next_sources(F, rt, m["client"]) for x in o if x.kind == "call")
        ctx.check(ok and src_ok, "receive_typed/sender-is-transport-tag", site_of(rt, bb), "FromClient.client is not the entity the message was tagged with by the transport")
        ev = dep_closure(rt, m["event"])
        des = [d for (k, d) in ev if k == "call" and callee_decl(rt.blocks[d].term).endswith("ClientEvent::deserialize")]
        ctx.check(bool(des), "receive_typed/event-from-same-message", site_of(rt, bb), "the event attached to the sender was not decoded from that sender's message")
        for d in des:
            msg = next_sources(F, rt, rt.blocks[d].term["args"][2])
            ctx.check(bool(msg & next_sources(F, rt, m["client"])), "receive_typed/sender-and-payload-same-item", site_of(rt, d), "sender and payload come from different received items")
    rl = ctx.fn("client_event::ClientEvent::resend_locally_typed")
    for b in F.with_closures(rl):
        for bb, i, s in b.statements():
            if s["s"] == "assign" and s["rvalue"]["rv"] == "agg" and s["rvalue"].get("adt") == FC:
                m = dict(zip(s["rvalue"]["fields"], s["rvalue"]["ops"]))
                ctx.check(named_const(b, m["client"]) == SERVER, "resend_locally/sender-is-SERVER", site_of(b, bb), "locally re-emitted events do not carry the SERVER identity")
    tt = ctx.fn("client_trigger::ClientTrigger::trigger_typed")
    ttr = tracer(tt, follow_next=False)
    for bb, i, s in tt.statements():
        if s["s"] == "assign" and s["rvalue"]["rv"] == "agg" and s["rvalue"].get("adt") == FC:
            m = dict(zip(s["rvalue"]["fields"], s["rvalue"]["ops"]))
            a, b_ = next_sources(F, tt, m["client"]), next_sources(F, tt, m["event"])
            ctx.check(bool(a & b_) and any(e[2] == "client" for x in ttr.operand(m["client"]) for e in x.path if e[0] == "f"), "trigger_typed/keeps-sender", site_of(tt, bb),
                      "the trigger is emitted with a different sender than the event it was received with")


def r4_cursor(ctx):
    F = ctx.F
    st = ctx.fn("client_event::ClientEvent::send_typed")
    tr = tracer(st)
    reads = [(bb, t) for bb, t in st.calls() if callee_decl(t).endswith("EventCursor::<E>::read")]
    fresh = [bb for bb, t in st.calls() if "get_cursor" in callee_decl(t) or callee_decl(t).endswith("EventCursor::<E>::default")]
    ctx.check(len(reads) == 1 and not fresh, "send_typed/persistent-cursor", site_of(st), "the client does not read through its persistent cursor (%d reads, %d fresh cursors): events would be re-sent while they linger in the buffer" % (len(reads), len(fresh)))
    for bb, t in reads:
        rsrc = tr.operand(t["args"][0])
        ok = any(x.kind == "call" and "PtrMut" in callee_decl(st.blocks[x.data].term) for x in rsrc) or any(x.kind == "param" and x.data == 4 for x in rsrc) \
            or any(k == "param" and d == 4 for (k, d) in dep_closure(st, t["args"][0]))
        ctx.check(ok, "send_typed/cursor-is-the-reader-resource", site_of(st, bb), "the cursor does not come from the ClientEventReader resource passed in")
    sends = [(bb, t) for bb, t in st.calls() if callee_decl(t).endswith("RepliconClient::send")]
    ctx.check(len(sends) == 1 and len(st.loops_containing(sends[0][0])) == 1, "send_typed/one-send-per-event", site_of(st), "%d send sites" % len(sends))
    for bb, t in sends:
        ch = tr.operand(t["args"][1])
        ctx.check(bool(ch) and all(x.path and x.path[-1][2] == "channel_id" for x in ch), "send_typed/own-channel", site_of(st, bb), "the event is not sent on its registered channel")
        # R5: not sent when serialisation (mapping) failed
        ser = [b2 for b2, t2 in st.calls() if callee_decl(t2).endswith("ClientEvent::serialize")]
        g = [(c, o) for (_, c, o) in required_outcomes(F, st, bb, skip_try=False) if c["kind"] == "variant" and not is_next_switch(st, c)]
        ok = any(("Err" not in o) and any(x.kind == "call" and x.data in ser for x in tracer(st).place(c["place"])) for c, o in g)
        ctx.check(ok, "send_typed/not-sent-when-serialize-failed", site_of(st, bb), "an event whose serialisation/mapping failed is still sent")
        msg = dep_closure(st, t["args"][2])
        ctx.check(any(k == "call" and d in ser for (k, d) in msg) or any(k == "call" and callee_decl(st.blocks[d].term).endswith("Vec::<T>::new") for (k, d) in msg),
                  "send_typed/sends-serialised-bytes", site_of(st, bb), "")
    # one message per event: the buffer an event is serialised into is empty at that point - created inside the iteration, or
    # emptied on every path back to the loop head (a refused event must not leave its bytes in front of the next one)
    ser_calls = [(bb, t) for bb, t in st.calls() if callee_decl(t).endswith("ClientEvent::serialize")]
    for sbb, stt in ser_calls:
        loops = st.loops_containing(sbb)
        if not loops:
            ctx.bad("send_typed/serialize-in-loop", site_of(st, sbb), "serialize is not called per event", kind="anchor-missing")
            continue
        h, body_blocks = min(loops, key=lambda hb: len(hb[1]))
        buf = tr.operand(stt["args"][-1])
        news = [o.data for o in buf if o.kind == "call" and callee_decl(st.blocks[o.data].term).rsplit("::", 1)[-1] in ("new", "with_capacity", "default")]
        fresh = bool(news) and all(nb in body_blocks for nb in news)
        emptied = False
        if not fresh:
            clears = [bb for bb, t in st.calls() if bb in body_blocks and callee_decl(t).rsplit("::", 1)[-1] in ("clear", "drain", "take", "truncate", "split_off")
                      and t.get("args") and tr.operand(t["args"][0]) & buf]
            back = [a_ for a_ in body_blocks for (tt, _) in st.succ[a_] if tt == h]
            after = bool(clears) and not any(st.reachable_avoiding(a_, (), start=x, removed_blocks=tuple(clears)) for a_ in back for (x, _) in st.succ[sbb])
            # ... or emptied at the top of every iteration, before the event is serialised
            before = bool(clears) and not any(st.reachable_avoiding(sbb, (), start=x, removed_blocks=tuple(clears)) for (x, _) in st.succ[h] if x in body_blocks)
            emptied = after or before
        ctx.check(fresh or emptied, "send_typed/fresh-buffer-per-event", site_of(st, sbb),
                  "the buffer an event is serialised into is shared between iterations and not emptied on every path back to the loop head: bytes of an event that was refused "
                  "(or of the previous event) are sent in front of the next event's bytes", "created per event" if fresh else "emptied on every path")
    reader = [a for a in F.adts if a.endswith("client_event::ClientEventReader")]
    ctx.check(bool(reader), "ClientEventReader/exists", "", "cursor resource type not found")
    # the send cursor only moves forward: nobody overwrites it (a restored checkpoint makes already-sent events unread again)
    rewinds = []
    for b in F.real_fns():
        if "::tests::" in b.path or not b.path.startswith(("bevy_replicon::shared::event", "bevy_replicon::client::event", "<bevy_replicon::shared::event")):
            continue
        for bb, i, st_ in b.statements():
            if st_["s"] == "assign" and st_["place"]["p"] and st_["place"]["p"][0] == "deref" and len(st_["place"]["p"]) <= 2:
                ty = b.locals[st_["place"]["l"]]["ty"]
                if ("EventCursor<" in ty or "ClientEventReader<" in ty) and all(e == "deref" for e in st_["place"]["p"]):
                    rewinds.append((b, bb, "assignment"))
        for bb, t in b.calls():
            d = callee_decl(t)
            if d.rsplit("::", 1)[-1] in ("replace", "swap", "take", "clone_from") and any("EventCursor" in a_ or "ClientEventReader" in a_ for a_ in t["callee"].get("args", [])):
                rewinds.append((b, bb, d.rsplit("::", 1)[-1]))
    ctx.check(not rewinds, "ClientEventReader/never-rewound", site_of(rewinds[0][0], rewinds[0][1]) if rewinds else site_of(st),
              "the client's send cursor is overwritten (%s): events that were already sent become unread again and are sent a second time - or re-emitted locally after a disconnect" % (
                  [(short(b.path), how) for (b, _, how) in rewinds]))
    # the server's consumer of FromClient events for triggers drains (exactly once)
    tt = ctx.fn("client_trigger::ClientTrigger::trigger_typed")
    ctx.check(any(callee_decl(t).endswith("Events::<E>::drain") for _, t in tt.calls()), "trigger_typed/drains", site_of(tt), "client trigger events are not drained when triggered (they would trigger again next frame)")
    st2 = ctx.fn("server_trigger::ServerTrigger::trigger_typed")
    ctx.check(any(callee_decl(t).endswith("Events::<E>::drain") for _, t in st2.calls()), "server trigger_typed/drains", site_of(st2), "server trigger events are not drained when triggered")


def r5_mapping(ctx):
    F = ctx.F
    import rules.C04 as C04
    C04.unmapped_record_does_not_leak(ctx, "client_event::ClientEvent::serialize", "ClientEvent::serialize")
    C04.unmapped_record_does_not_leak(ctx, "server_event::ServerEvent::deserialize", "ServerEvent::deserialize")
    se = ctx.fn("client_event::ClientEvent::serialize")
    tr = tracer(se)
    C04.success_only_when_all_mapped(ctx, "client_event::ClientEvent::serialize", "ClientEvent::serialize", "an event referencing entities unknown to the server is serialised successfully")
    dm = ctx.fn("client_event::default_serialize_mapped")
    ctx.check(any(callee_decl(t).endswith("MapEntities::map_entities") for _, t in dm.calls()), "default_serialize_mapped/maps", site_of(dm), "mapped client events are not mapped")
    ts = ctx.fn("client_trigger::trigger_serialize")
    ttr = tracer(ts)
    okm = False
    for bb, t in ts.calls():
        if callee_decl(t).endswith("entity_serde::serialize_entity"):
            src = ttr.operand(t["args"][1])
            okm = bool(src) and all(x.kind == "call" and callee_decl(ts.blocks[x.data].term).endswith("EntityMapper::get_mapped") for x in src)
    ctx.check(okm, "client_trigger::trigger_serialize/targets-mapped", site_of(ts), "client trigger targets are sent without mapping them to server entities")


def r6_channels(ctx):
    F = ctx.F
    for nm, meth in (("client_event::ClientEvent::new", "create_client_channel"), ("server_event::ServerEvent::new", "create_server_channel")):
        b = ctx.fn(nm)
        tr = tracer(b)
        cc = [(bb, t) for bb, t in b.calls() if callee_decl(t).endswith("RepliconChannels::" + meth)]
        ok = len(cc) == 1 and all(x.kind == "param" and x.data == 2 for x in tr.operand(cc[0][1]["args"][1]))
        ctx.check(ok, "%s/channel-from-registration" % nm.split("::")[1], site_of(b), "the event's channel is not created from the channel kind given at registration")
        if cc:
            aggs = [s["rvalue"] for _, _, s in b.statements() if s["s"] == "assign" and s["rvalue"]["rv"] == "agg" and s["rvalue"].get("adt", "").endswith(nm.split("::")[1])]
            okc = False
            for rv in aggs:
                m = dict(zip(rv["fields"], rv["ops"]))
                okc = any(x.kind == "call" and x.data == cc[0][0] for x in tr.operand(m["channel_id"]))
            ctx.check(okc, "%s/stores-created-channel" % nm.split("::")[1], site_of(b), "the stored channel id is not the id of the channel just created")


def r7_no_old_session_events(ctx):
    """Queued events are dropped on (re)connect and their buffers cannot carry them over (C09.R1c restricted to event queues)."""
    import rules.C09 as C09
    before = len(ctx.instances)
    C09.r1c_pool_hygiene(ctx)
    keep = []
    for i in ctx.instances[before:]:
        if "ClientEventQueue" in i["key"] or "BufferedServerEvents" in i["key"] or not i["ok"] and "pools" in i["key"]:
            keep.append(i)
    ctx.instances[before:] = keep
    S = schedule(ctx.F)
    er = S.system("client::event::reset")
    ctx.check(len(er) == 1 and "client::ClientSet::ResetEvents" in er[0]["sets"], "client::event::reset/registered", "", "queued events are not reset on connect")


def r8_per_recipient_bytes(ctx):
    """Each recipient of a buffered event gets bytes built for *its* tick: the stamping cache hands out cached bytes only for the
    same tick and otherwise serialises the requested one (the get_bytes / BufferedServerEvent::send part of C04.R2) - a recipient
    served another recipient's cache entry gets a garbled or wrongly stamped copy."""
    import rules.C04 as C04
    before = len(ctx.instances)
    C04.r2_stamping(ctx)
    keep = [i for i in ctx.instances[before:] if "get_bytes" in i["key"] or "BufferedServerEvent::send" in i["key"]]
    ctx.instances[before:] = keep


def r9_client_delivery_order(ctx):
    """In order: events that had to wait in the client's queue are delivered before anything received later (the delivery-order part
    of C04.R3)."""
    import rules.C04 as C04
    before = len(ctx.instances)
    C04.r3_client_gate(ctx)
    keep = [i for i in ctx.instances[before:] if "queue-released-before-new-events" in i["key"] or "two-delivery-paths" in i["key"] or "queued-delivery-from-pop_if_le" in i["key"] or (not i["ok"] and i.get("kind") == "anchor-missing")]
    ctx.instances[before:] = keep


def r20_unconditional_mutators(ctx):
    """Mutators this property relies on always perform their effect (shared table in rules/mutators.py)."""
    import rules.mutators as mutators
    mutators.run_for(ctx, "C05")


RULES = [
    ("C05.R1", "recipient selection: three implementations, every SendMode arm guarded as the mode demands", r1_recipients, 18, ["default", "all-features", "server-only"]),
    ("C05.R2", "clients that connected after buffering are excluded in every arm", r2_late_joiners, 6, ["default", "all-features", "server-only"]),
    ("C05.R3", "sender identity = transport tag (SERVER for local re-emission)", r3_sender_identity, 5, ["default", "all-features", "server-only"]),
    ("C05.R4", "client sends through its persistent cursor, once per event, on the event's channel; triggers drain", r4_cursor, 8, ["default", "all-features"]),
    ("C05.R5", "client events with unmappable entities are not serialised; targets are mapped", r5_mapping, 4, ["default", "all-features"]),
    ("C05.R6", "event channels are created from the registered channel kind and remembered", r6_channels, 4, ["default", "all-features"]),
    ("C05.R7", "events queued in a previous session cannot resurface (queue reset on connect, event pools emptied)", r7_no_old_session_events, 3, ["default", "all-features"]),
    ("C05.R8", "every recipient gets bytes built for its own tick (stamping cache, same rule as C04.R2)", r8_per_recipient_bytes, 5, ["default", "all-features", "server-only"]),
    ("C05.R9", "the client delivers queued (older) events before events received later (same rule as C04.R3)", r9_client_delivery_order, 3, ["default", "all-features", "client-only"]),
    ("C05.R20", "mutators this property relies on always perform their effect (rules/mutators.py): no early return, no guard outside the allowed set", r20_unconditional_mutators, 2, ["default", "all-features"]),
]
THOROUGH_CONFIGS = ["default", "all-features", "server-only"]
