//! Minimal JSON value + writer (the driver has no Cargo dependencies).
pub enum J {
    Null,
    Bool(bool),
    Num(i128),
    Str(String),
    Arr(Vec<J>),
    Obj(Vec<(String, J)>),
}

fn esc(s: &str, out: &mut String) {
    out.push('"');
    for c in s.chars() {
        match c {
            '"' => out.push_str("\\\""),
            '\\' => out.push_str("\\\\"),
            '\n' => out.push_str("\\n"),
            '\r' => out.push_str("\\r"),
            '\t' => out.push_str("\\t"),
            c if (c as u32) < 0x20 => out.push_str(&format!("\\u{:04x}", c as u32)),
            c => out.push(c),
        }
    }
    out.push('"');
}

impl J {
    pub fn write(&self, out: &mut String) {
        match self {
            J::Null => out.push_str("null"),
            J::Bool(b) => out.push_str(if *b { "true" } else { "false" }),
            J::Num(n) => out.push_str(&n.to_string()),
            J::Str(s) => esc(s, out),
            J::Arr(v) => {
                out.push('[');
                for (i, x) in v.iter().enumerate() {
                    if i > 0 {
                        out.push(',');
                    }
                    x.write(out);
                }
                out.push(']');
            }
            J::Obj(v) => {
                out.push('{');
                for (i, (k, x)) in v.iter().enumerate() {
                    if i > 0 {
                        out.push(',');
                    }
                    esc(k, out);
                    out.push(':');
                    x.write(out);
                }
                out.push('}');
            }
        }
    }
}
