"""A6: ECS effects of systems - which resources / components / erased resource families a
system may write (from its parameter types, from World accessors in exclusive systems, and from
the FilteredResourcesMut builders attached when the system is built)."""
import re

from callgraph import callgraph, direct_targets
from facts import callee_decl, callee_name
from flow import tracer, short
from schedule import parse_expr


def split_generic(ty):
    """`A<B, C<D>>` -> ('A', ['B', 'C<D>'])"""
    i = ty.find("<")
    if i < 0 or not ty.endswith(">"):
        return ty, []
    head, inner = ty[:i], ty[i + 1:-1]
    args, depth, cur = [], 0, ""
    for ch in inner:
        if ch in "<([":
            depth += 1
        elif ch in ">)]":
            depth -= 1
        if ch == "," and depth == 0:
            args.append(cur.strip())
            cur = ""
        else:
            cur += ch
    if cur.strip():
        args.append(cur.strip())
    return head, args


def split_tuple(ty):
    ty = ty.strip()
    if not (ty.startswith("(") and ty.endswith(")")):
        return [ty]
    inner = ty[1:-1]
    args, depth, cur = [], 0, ""
    for ch in inner:
        if ch in "<([":
            depth += 1
        elif ch in ">)]":
            depth -= 1
        if ch == "," and depth == 0:
            args.append(cur.strip())
            cur = ""
        else:
            cur += ch
    if cur.strip():
        args.append(cur.strip())
    return args


def _strip_lt(args):
    return [a for a in args if not a.startswith("'")]


def param_effects(F, ty, depth=0):
    """-> set of (kind, type, mode) for one system parameter type. kind: res|local|comp|event|world|commands|filtered|other"""
    ty = ty.strip()
    out = set()
    if ty.startswith("&mut ") and "World" in ty:
        return {("world", "World", "w")}
    if ty.startswith("&") and "World" in ty:
        return {("world", "World", "r")}
    if ty.startswith("&"):
        return {("other", ty, "r")}
    if ty.startswith("("):
        for t in split_tuple(ty):
            out |= param_effects(F, t, depth + 1)
        return out
    head, args = split_generic(ty)
    args = _strip_lt(args)
    base = head.rsplit("::", 1)[-1]
    if head.endswith("option::Option") and args:
        return param_effects(F, args[0], depth + 1)
    if base == "ResMut" and args:
        return {("res", args[0], "w")}
    if base == "Res" and args:
        return {("res", args[0], "r")}
    if base == "Local" and args:
        return {("local", args[0], "w")}
    if base in ("EventWriter",) and args:
        return {("res", "bevy_ecs::event::collections::Events<%s>" % args[0], "w")}
    if base in ("EventReader",) and args:
        return {("res", "bevy_ecs::event::collections::Events<%s>" % args[0], "r")}
    if base == "Commands":
        return {("commands", "Commands", "w")}
    if base == "FilteredResourcesMut":
        return {("filtered", "FilteredResourcesMut", "w")}
    if base == "FilteredResources":
        return {("filtered", "FilteredResources", "r")}
    if base == "Query" and args:
        for t in split_tuple(args[0]):
            t = t.strip()
            inner = t
            h2, a2 = split_generic(t)
            if h2.endswith("option::Option") and a2:
                inner = _strip_lt(a2)[0]
            if inner.startswith("&mut "):
                out.add(("comp", inner[5:].strip(), "w"))
            elif inner.startswith("&") :
                out.add(("comp", inner[1:].strip(), "r"))
        return out
    if base == "Trigger":
        return {("other", ty, "r")}
    # custom SystemParam struct: recurse into its fields
    if head in F.adts and depth < 3:
        for f in F.adts[head]["variants"][0]["fields"]:
            out |= param_effects(F, f["ty"], depth + 1)
        return out
    return {("other", ty, "r")}


WORLD_WRITERS = {"resource_scope": "w", "resource_mut": "w", "get_resource_mut": "w", "remove_resource": "w", "insert_resource": "w",
                 "init_resource": "w", "send_event": "w", "get_resource_or_insert_with": "w", "get_resource_or_init": "w",
                 "resource": "r", "get_resource": "r"}


def world_effects(F, body, depth_limit=6):
    """Resources touched through `World` accessors in body and everything it calls locally (closures included)."""
    cg = callgraph(F)
    seen = cg.reachable_from([body.path])
    out = set()
    for p in seen:
        b = F.fns.get(p)
        if b is None:
            continue
        for bb, t in b.calls():
            d = callee_decl(t)
            if not (d.startswith("bevy_ecs::world::World::") or d.startswith("bevy_ecs::world::deferred_world::DeferredWorld::")):
                continue
            m = d.rsplit("::", 1)[-1]
            if m in WORLD_WRITERS:
                g = _strip_lt(t["callee"].get("args", []))
                if g:
                    ty = g[0]
                    if m == "send_event":
                        ty = "bevy_ecs::event::collections::Events<%s>" % ty
                    out.add(("res", ty, WORLD_WRITERS[m]))
    return out


def filtered_tokens(F):
    """system fn path -> set of (accessor, iterator accessor, mode) for the FilteredResources(Mut) builders given to build_system."""
    res = {}
    for body in F.real_fns():
        if "::tests::" in body.path:
            continue
        tr = tracer(body)
        for bb, t in body.calls():
            if not callee_decl(t).endswith("::build_system"):
                continue
            sysnode = parse_expr(F, body, t["args"][-1])
            if sysnode.get("kind") != "fn":
                continue
            toks = set()
            # the state argument derives from build_state(tuple_of_builders, world)
            from flow import dep_closure
            for (k, d) in dep_closure(body, t["args"][0]):
                if k != "stmt":
                    continue
                rv = body.blocks[d[0]].stmts[d[1]]["rvalue"]
                if rv["rv"] == "agg" and rv["kind"] == "closure":
                    cb = F.fns.get(rv["closure"])
                    if cb is None:
                        continue
                    ctr = tracer(cb)
                    iters = [callee_decl(ct).rsplit("::", 2)[-2] + "::" + callee_decl(ct).rsplit("::", 1)[-1]
                             for _, ct in cb.calls() if callee_decl(ct).rsplit("::", 1)[-1].startswith("iter_")]
                    for cbb, ct in cb.calls():
                        m = callee_decl(ct).rsplit("::", 1)[-1]
                        if m in ("add_write_by_id", "add_read_by_id"):
                            for o in ctr.operand(ct["args"][1]):
                                if o.kind == "call":
                                    acc = callee_decl(cb.blocks[o.data].term)
                                    toks.add((acc, tuple(sorted(set(iters))), "w" if m == "add_write_by_id" else "r"))
            res.setdefault(sysnode["path"], set()).update(toks)
    return res


def system_effects(F, path):
    """-> set of (kind, type/token, mode)"""
    body = F.fns.get(path)
    if body is None:
        return set()
    out = set()
    ins = body.j.get("inputs", [])
    closures = []
    if body.kind in ("Fn", "AssocFn") and "impl " in body.j.get("output", "") or body.j.get("output", "").startswith("{closure"):
        # a factory returning a closure system: use the closure's parameters
        closures = F.closures_of(path)
    for i in ins:
        out |= param_effects(F, i)
    for c in closures:
        # closure inputs are not in `inputs`; use local decls of its args (skip env)
        for l in range(2, c.arg_count + 1):
            out |= param_effects(F, c.locals[l]["ty"])
    if any(k == "world" for (k, _, _) in out):
        out |= world_effects(F, body)
    ft = filtered_tokens(F).get(path, set())
    for (acc, its, mode) in ft:
        out.add(("family", short(acc), mode))
    return out
