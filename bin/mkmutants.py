#!/usr/bin/env python3
"""Generates selftest/mutants/<prop>/<name>.diff from selftest/specs.py against /repo's current sources."""
import difflib, os, sys
VERIF = os.path.dirname(os.path.dirname(os.path.abspath(__file__)))
REPO = os.environ.get("REPLICON_REPO", "/repo")
sys.path.insert(0, os.path.join(VERIF, "selftest"))
import specs
only = set(sys.argv[1:])
n = 0
for m in specs.MUTANTS + getattr(specs, 'BENIGN', []):
    if only and m["prop"] not in only and m["name"] not in only:
        continue
    out = []
    ok = True
    files = {}
    if m.get("patch"):
        src = os.path.join(VERIF, m["patch"])
        if not os.path.exists(src):
            print("!! %s/%s: patch file %s missing" % (m["prop"], m["name"], m["patch"]))
            continue
        d = os.path.join(VERIF, "selftest", "mutants", m["prop"])
        os.makedirs(d, exist_ok=True)
        with open(os.path.join(d, m["name"] + ".diff"), "w") as fh:
            fh.write("# desc: %s\n" % m["desc"])
            for e in m["expect"]:
                fh.write("# expect: %s\n" % e)
            fh.write(open(src).read())
        n += 1
        continue
    for (f, old, new) in m["edits"]:
        src = files.get(f) or open(os.path.join(REPO, f)).read()
        if src.count(old) != 1:
            print("!! %s/%s: pattern occurs %d times in %s" % (m["prop"], m["name"], src.count(old), f))
            ok = False
            break
        files[f] = src.replace(old, new)
    if not ok:
        continue
    for f, new_src in files.items():
        a = open(os.path.join(REPO, f)).read().splitlines(True)
        b = new_src.splitlines(True)
        out += list(difflib.unified_diff(a, b, "a/" + f, "b/" + f, n=3))
    d = os.path.join(VERIF, "selftest", "mutants", m["prop"])
    os.makedirs(d, exist_ok=True)
    with open(os.path.join(d, m["name"] + ".diff"), "w") as fh:
        fh.write("# desc: %s\n" % m["desc"])
        for e in m["expect"]:
            fh.write("# expect: %s\n" % e)
        fh.write("".join(out))
    n += 1
if not only:
    # remove files of mutants that are no longer specified
    import glob
    wanted = {os.path.join(VERIF, "selftest", "mutants", m["prop"], m["name"] + ".diff") for m in specs.MUTANTS + getattr(specs, "BENIGN", [])}
    for f in glob.glob(os.path.join(VERIF, "selftest", "mutants", "*", "*.diff")):
        if f not in wanted:
            os.remove(f)
            print("removed stale", os.path.relpath(f, VERIF))
print("wrote", n, "mutants")
