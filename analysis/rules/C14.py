"""C14 - The protocol hash separates compatible from incompatible builds."""
from engine import site_of
from facts import callee_decl, callee_name
from flow import dep_closure, tracer, short, required_outcomes, switch_cond, deep_origins
from schedule import schedule

EXPLANATION = (
    "R1 (must-call): every function that mutates a registry (ReplicationRules::insert, RemoteEventRegistry::register_*, "
    "a store of `true` into ServerEvent.independent) calls exactly one ProtocolHasher method on every path through the mutation, "
    "with one of its own type parameters; distinct registration entry points use distinct hasher methods; the registries have no "
    "other writers. R2: every hasher method builds its own ProtocolPart variant and feeds it together with type_name::<T>() "
    "into the state; the priority travels in the part. R3: the hash state is the fixed-key FNV hasher and only the part, the "
    "type name and add_custom's value are hashed. R4: AuthorizedClient is inserted only on the equal edge of the hash "
    "comparison, the other edge notifies the same client and requests its disconnect; observer / required-component "
    "registrations sit in the right AuthMethod arms; the client sends its hash on connect under ProtocolCheck.")
NOT_DECIDED = "collision-freeness of the 64-bit hash (differ => different hash is probabilistic by nature); determinism of user-supplied add_custom values"
TRUSTED_BASE = ["fnv::FnvHasher is deterministic across runs and platforms", "core::any::type_name is stable for one compiler version",
                "Bevy applies queued commands (insert / trigger) to the entity they name"]

HASHER = "bevy_replicon::shared::protocol::ProtocolHasher"
PART = "bevy_replicon::shared::protocol::ProtocolPart"
SERVER_EVENT = "bevy_replicon::shared::event::server_event::ServerEvent"


def _is_test(p):
    return "::tests::" in p or "test_app" in p


def _hasher_calls(body):
    out = []
    for bb, t in body.calls():
        decl = callee_decl(t)
        if decl.startswith(HASHER + "::") and decl.rsplit("::", 1)[-1] not in ("finish", "hash", "default"):
            out.append((bb, t))
    return out


def _mutations(F, body):
    """Registry mutations in `body`: (bb, kind)"""
    out = []
    for bb, t in body.calls():
        decl = callee_decl(t)
        if decl.endswith("replication_rules::ReplicationRules::insert"):
            out.append((bb, "ReplicationRules::insert"))
        elif "remote_event_registry::RemoteEventRegistry::register_" in decl:
            out.append((bb, "RemoteEventRegistry::" + decl.rsplit("::", 1)[-1]))
    for bb, i, s in body.statements():
        if s["s"] != "assign" or not s["place"]["p"]:
            continue
        last = s["place"]["p"][-1]
        if isinstance(last, dict) and last.get("adt") == SERVER_EVENT and last.get("name") == "independent":
            out.append((bb, "ServerEvent.independent := " + str(s["rvalue"].get("op", {}).get("val"))))
    return out


def r1_must_hash(ctx):
    F = ctx.F
    used = {}
    n = 0
    for body in F.real_fns():
        if _is_test(body.path) or body.crate != "bevy_replicon":
            continue
        muts = _mutations(F, body)
        if not muts:
            continue
        # the registry types' own methods are the mutators themselves
        if body.j.get("impl_self_adt") in ("bevy_replicon::shared::replication::replication_rules::ReplicationRules",
                                           "bevy_replicon::shared::event::remote_event_registry::RemoteEventRegistry"):
            continue
        hs = _hasher_calls(body)
        for bb, kind in muts:
            n += 1
            key = "%s/%s" % (short(body.path), kind.split(" ")[0])
            if kind.startswith("ServerEvent.independent") and body.path.endswith("ServerEvent::new"):
                continue
            on_all = [hb for hb, ht in hs if body.dominates(hb, bb) or body.postdominates(hb, bb)]
            if len(hs) != 1 or not on_all:
                ctx.bad(key, site_of(body, bb),
                        "registry mutation `%s` without exactly one ProtocolHasher call on every path (%d hasher call(s) in the function, %d on all paths): "
                        "two builds that differ in this registration would compute the same protocol hash" % (kind, len(hs), len(on_all)))
                continue
            hb, ht = hs[0]
            method = callee_decl(ht).rsplit("::", 1)[-1]
            targs = [a for a in ht["callee"]["args"] if not a.startswith("'")]
            generics = body.j.get("generics", [])
            ok_t = len(targs) == 1 and targs[0] in generics
            ctx.check(ok_t, key + "/type-param", site_of(body, hb),
                      "ProtocolHasher::%s is fed `%s`, which is not a type parameter of the registering function %s" % (method, targs, generics),
                      "%s::<%s>" % (method, targs[0] if targs else "?"))
            # value arguments of the hasher call are the registering function's own parameters (what the caller asked for), and the
            # same parameters also reach the registration itself - not something derived from the constructed object
            if len(ht["args"]) > 1:
                btr = tracer(body)
                for ai, a in enumerate(ht["args"][1:], 1):
                    src = btr.operand(a)
                    ok_v = bool(src) and all(o.kind == "param" and not o.path for o in src)
                    ctx.check(ok_v, key + "/value-arg-%d-is-parameter" % ai, site_of(body, hb),
                              "ProtocolHasher::%s is fed a value computed from %s instead of the registering function's own parameter: two builds that register "
                              "different values can compute the same protocol hash" % (method, sorted({(o.kind, str(o.data)[:40]) for o in src})[:3]))
                    if ok_v:
                        params = {o.data for o in src}
                        used_elsewhere = any(any(k == "param" and d in params for (k, d) in dep_closure(body, a2))
                                             for cb_, ct_ in body.calls() if cb_ != hb for a2 in ct_.get("args", []))
                        if not used_elsewhere:
                            from flow import closure_env_map
                            for cbody in F.closures_of(body.path):
                                for idx, (pb, cop) in closure_env_map(F, cbody).items():
                                    if pb.path == body.path and any(k == "param" and d in params for (k, d) in dep_closure(body, cop)):
                                        used_elsewhere = True
                        ctx.check(used_elsewhere, key + "/value-arg-%d-also-registered" % ai, site_of(body, hb),
                                  "the hashed parameter is not used by the registration itself")
            prev = used.get(method)
            if prev and prev != (body.path, kind.split(" ")[0]):
                ctx.bad(key + "/distinct-method", site_of(body, hb),
                        "hasher method `%s` is shared by two different registrations (%s and %s): their kinds are indistinguishable in the hash" % (
                            method, prev, (body.path, kind)))
            else:
                used[method] = (body.path, kind.split(" ")[0])
                ctx.ok(key, site_of(body, bb), "feeds ProtocolHasher::%s on every path" % method)
    # who may write the registries
    rules_adt = "bevy_replicon::shared::replication::replication_rules::ReplicationRules"
    reg_adt = "bevy_replicon::shared::event::remote_event_registry::RemoteEventRegistry"
    for body in F.real_fns():
        if _is_test(body.path):
            continue
        tr = tracer(body)
        for bb, t in body.calls():
            decl = callee_decl(t)
            m = decl.rsplit("::", 1)[-1]
            if m in ("push", "insert", "extend", "append", "remove", "swap_remove", "clear", "retain", "truncate", "drain", "pop", "sort_by", "sort_by_key", "swap", "reverse") and "Vec" in decl and t["args"]:
                for o in tr.operand(t["args"][0]):
                    for e in o.path:
                        if e[0] == "f" and e[3] in (rules_adt, reg_adt):
                            inside = body.j.get("impl_self_adt") == e[3]
                            ctx.check(inside, "%s/%s-on-%s" % (short(body.path), m, short(e[3]).rsplit("::", 1)[-1]), site_of(body, bb),
                                      "registry storage is modified outside the registry's own methods (bypasses the hashed entry points)")
    for adt in (rules_adt, reg_adt):
        for f in ctx.F.adt_fields(adt) or []:
            ctx.check(f["vis"].startswith("restricted"), "%s.%s/private" % (short(adt), f["name"]), adt, "registry field is not private")


def r2_hasher_methods(ctx):
    F = ctx.F
    methods = [b for p, b in F.fns.items() if p.startswith(HASHER + "::") and b.kind == "AssocFn"
               and p.rsplit("::", 1)[-1] not in ("finish", "hash", "add_custom")]
    if len(methods) < 8:
        ctx.bad("methods", "", "only %d ProtocolHasher registration methods found" % len(methods), kind="anchor-missing")
    seen = {}
    for b in methods:
        name = b.path.rsplit("::", 1)[-1]
        tr = tracer(b)
        hc = [(bb, t) for bb, t in b.calls() if callee_decl(t) == HASHER + "::hash"]
        if len(hc) != 1:
            ctx.bad("%s/calls-hash-once" % name, site_of(b), "method calls ProtocolHasher::hash %d times" % len(hc))
            continue
        bb, t = hc[0]
        ctx.check(not [x for x in required_outcomes(F, b, bb) if x[1]["kind"] != "const"], "%s/hash-unconditional" % name, site_of(b, bb),
                  "the hash call is conditional")
        targs = [a for a in t["callee"]["args"] if not a.startswith("'")]
        ctx.check(targs and targs[0] in b.j.get("generics", []), "%s/own-type-param" % name, site_of(b, bb),
                  "hash::<%s> does not use the method's own type parameter" % targs)
        variants = set()
        prio_ok = True
        for o in tr.operand(t["args"][1]):
            if o.kind == "stmt":
                rv = b.blocks[o.data[0]].stmts[o.data[1]]["rvalue"]
                if rv["rv"] == "agg" and rv.get("adt") == PART:
                    variants.add(rv["variant"])
                    if rv["ops"]:
                        srcs = set()
                        for op in rv["ops"]:
                            srcs |= {(x.kind, x.data) for x in deep_origins(b, op)}
                        prio_ok = any(k == "param" for k, _ in srcs)
            elif o.kind == "const" and o.data[0] == "promoted":
                pb = b.promoted[o.data[1]]
                for pbb, i, s in pb.statements():
                    if s["s"] == "assign" and s["rvalue"]["rv"] == "agg" and s["rvalue"].get("adt") == PART:
                        variants.add(s["rvalue"]["variant"])
        ctx.check(len(variants) == 1, "%s/one-part" % name, site_of(b, bb), "could not identify a single ProtocolPart variant: %s" % variants)
        for v in variants:
            if v in seen and seen[v] != name:
                ctx.bad("%s/distinct-part" % name, site_of(b, bb), "ProtocolPart::%s is also used by `%s`: the two kinds hash identically" % (v, seen[v]))
            else:
                seen[v] = name
        ctx.check(prio_ok, "%s/fields-from-params" % name, site_of(b, bb), "a field of the hashed part is not taken from the method's parameters (e.g. the priority)")
    # hash<T>: feeds part and type_name::<T>() into self.0
    h = ctx.fn("protocol::ProtocolHasher::hash")
    tr = tracer(h)
    fed = []
    for bb, t in h.calls():
        decl = callee_decl(t)
        if decl == "core::hash::Hash::hash":
            selfty = [a for a in t["callee"]["args"] if not a.startswith("'")][0]
            state = tr.operand(t["args"][1])
            st_ok = all(o.kind == "param" and o.data == 1 and o.path and o.path[-1][3] == HASHER for o in state)
            src = ""
            for o in tr.operand(t["args"][0]):
                if o.kind == "call":
                    ct = h.blocks[o.data].term
                    src = callee_decl(ct) + "<" + ",".join(ct["callee"].get("args", [])) + ">"
                elif o.kind == "param":
                    src = "param%d" % o.data
            fed.append((selfty, src, st_ok, not required_outcomes(F, h, bb)))
    ctx.check(any(f[0] == PART and f[1] == "param2" and f[2] and f[3] for f in fed), "hash/feeds-part", site_of(h), "hash() does not feed the ProtocolPart into the state: %s" % fed)
    ctx.check(any(f[0] == "str" and f[1].startswith("core::any::type_name<T") and f[2] and f[3] for f in fed), "hash/feeds-type-name", site_of(h),
              "hash() does not feed type_name::<T>() into the state: %s" % fed)
    ph = [i for i in F.impls if i.get("self") == PART and i.get("trait") == "core::hash::Hash"]
    ctx.check(bool(ph) and ph[0]["derived"], "ProtocolPart/derived-Hash", PART, "ProtocolPart's Hash impl is not the derived one (discriminant + fields)")
    # the part enum has one variant per method
    a = ctx.adt(PART)
    ctx.check(len(a["variants"]) >= len(methods), "ProtocolPart/variants>=methods", PART, "fewer ProtocolPart variants than hasher methods")


def r3_determinism(ctx):
    F = ctx.F
    fields = ctx.F.adt_fields(HASHER)
    ctx.check(fields and fields[0]["ty"] == "fnv::FnvHasher", "state-type", HASHER,
              "hash state is `%s`, not the fixed-key fnv::FnvHasher (a randomly keyed hasher differs between runs)" % (fields and fields[0]["ty"]))
    allowed = {PART, "str", "T"}
    for p, b in F.fns.items():
        if not (p.startswith(HASHER + "::") or b.j.get("closure_root", "").startswith(HASHER + "::")):
            continue
        for bb, t in b.calls():
            if callee_decl(t) == "core::hash::Hash::hash":
                selfty = [a for a in t["callee"]["args"] if not a.startswith("'")][0]
                ctx.check(selfty in allowed, "%s/hashes-%s" % (short(p), short(selfty)), site_of(b, bb),
                          "a value of type `%s` is fed into the protocol hash (TypeId / addresses are not stable across builds)" % selfty)
    fin = ctx.fn("protocol::ProtocolHasher::finish")
    calls = [callee_decl(t) for bb, t in fin.calls()]
    ctx.check(any(c.endswith("Hasher::finish") for c in calls), "finish/uses-state", site_of(fin), "finish() does not read the hasher state")
    # ProtocolHash is produced at exactly one place: finish(); inserted by the shared plugin's finish
    aggs = []
    for body in F.real_fns():
        if _is_test(body.path) or body.j.get("derived"):
            continue
        if "serde" in body.path or "_::" in body.path:
            continue
        for bb, i, s in body.statements():
            if s["s"] == "assign" and s["rvalue"]["rv"] == "agg" and s["rvalue"].get("adt") == "bevy_replicon::shared::protocol::ProtocolHash":
                aggs.append(body.path)
    ctx.check(set(aggs) <= {HASHER + "::finish"} and aggs, "ProtocolHash/single-producer", "", "ProtocolHash values are constructed in %s" % aggs)


def r4_handshake(ctx):
    F = ctx.F
    S = schedule(F)
    cp = ctx.fn("server::check_protocol")
    tr = tracer(cp)
    AUTH = "bevy_replicon::server::AuthorizedClient"
    inserts = [(bb, t) for bb, t in cp.calls() if callee_decl(t).endswith("EntityCommands::<'a>::insert") and any(AUTH in a for a in t["callee"]["args"])]
    if not inserts:
        ctx.bad("check_protocol/insert", site_of(cp), "no insertion of AuthorizedClient found", kind="anchor-missing")
        return
    eq_switch = None
    for bb, t in inserts:
        g = [(sbb, c, o) for (sbb, c, o) in required_outcomes(F, cp, bb) if c["kind"] == "cmp" and
             ("ProtocolHash" in c.get("callee", "") or any("ProtocolHash" in a for a in c.get("targs", [])))]
        ok = bool(g) and all(c["rel"] == "==" and o == {True} or c["rel"] == "!=" and o == {False} for (_, c, o) in g)
        ctx.check(ok, "check_protocol/authorize-only-on-equal", site_of(cp, bb),
                  "AuthorizedClient is inserted without the client's hash having compared equal to the server's")
        if g:
            eq_switch = g[0]
            c = g[0][1]
            sides = []
            for side in (c["a"], c["b"]):
                o = tr.operand(side)
                sides.append("trigger" if any(x.kind == "param" and x.data == 1 for x in o) else "resource" if any(x.kind == "param" and "Res<" in cp.locals[x.data]["ty"] for x in o) else "?")
            ctx.check(sorted(sides) == ["resource", "trigger"], "check_protocol/compares-client-with-server", site_of(cp, g[0][0]),
                      "the comparison is not between the received hash and the server's ProtocolHash resource: %s" % sides)
        # the entity that is authorized is the sender
        ec = [o for o in tr.operand(t["args"][0]) if o.kind == "call"]
        senders = set()
        for o in ec:
            et = cp.blocks[o.data].term
            if callee_decl(et).endswith("Commands::<'w, 's>::entity"):
                for x in tr.operand(et["args"][1]):
                    senders.add((x.kind, x.data, tuple(e[2] for e in x.path if e[0] == "f")))
        ctx.check(senders == {("param", 1, ("client",))}, "check_protocol/authorizes-sender", site_of(cp, bb),
                  "the entity marked authorized is not `trigger.client`: %s" % senders)
    if eq_switch:
        sbb, c, _ = eq_switch
        # every received hash is compared: nothing the client controls lets the handler return before the comparison
        pre = [(c2["kind"], c2.get("name") or c2.get("rel") or "", sorted(map(str, o2))) for (s2, c2, o2) in required_outcomes(F, cp, sbb)]
        skipping = [e for e in cp.exits() if cp.reachable_avoiding(e, (), removed_blocks=(sbb,))]
        ctx.check(not pre and not skipping, "check_protocol/every-hash-is-compared", site_of(cp, sbb),
                  "the handler can return without comparing the received hash with the server's (conditions before the comparison: %s): such a client is neither authorized nor "
                  "told about the mismatch nor asked to disconnect" % pre)
        # the mismatch edge must reach both the ProtocolMismatch trigger and the DisconnectRequest write, on every path to return
        sw = cp.blocks[sbb].term
        mismatch_targets = [t for (t, lab) in cp.succ[sbb] if not cp.reachable_avoiding(inserts[0][0], (), start=t)]
        notif = [bb for bb, t in cp.calls() if "server_trigger" in callee_decl(t) and any("ProtocolMismatch" in a for a in t["callee"]["args"])]
        disc = [bb for bb, t in cp.calls() if callee_decl(t).endswith("EventWriter::<'w, E>::write") and any("DisconnectRequest" in a for a in t["callee"]["args"])]
        for name, lst in (("notify-mismatch", notif), ("request-disconnect", disc)):
            ok = bool(lst) and bool(mismatch_targets)
            for mt in mismatch_targets:
                for ex in cp.exits():
                    if cp.reachable_avoiding(ex, (), start=mt, removed_blocks=lst):
                        ok = False
            ctx.check(ok, "check_protocol/%s" % name, site_of(cp, lst[0] if lst else sbb),
                      "on a protocol mismatch the handler can return without %s" % name)
        # both name the sender
        for bb in notif:
            t = cp.blocks[bb].term
            d = deep_origins(cp, t["args"][1])
            ctx.check(any(o.kind == "param" and o.data == 1 and any(e[0] == "f" and e[2] == "client" for e in o.path) for o in d),
                      "check_protocol/mismatch-goes-to-sender", site_of(cp, bb), "ProtocolMismatch is not addressed to `trigger.client`")
            modes = set()
            for o in tr.operand(t["args"][1]):
                if o.kind == "stmt":
                    rv = cp.blocks[o.data[0]].stmts[o.data[1]]["rvalue"]
                    if rv["rv"] == "agg":
                        for op in rv["ops"]:
                            for o2 in tr.operand(op):
                                if o2.kind == "stmt":
                                    rv2 = cp.blocks[o2.data[0]].stmts[o2.data[1]]["rvalue"]
                                    if rv2["rv"] == "agg" and rv2.get("adt", "").endswith("SendMode"):
                                        modes.add(rv2["variant"])
            ctx.check(modes == {"Direct"}, "check_protocol/mismatch-direct", site_of(cp, bb), "mismatch notification uses send mode %s" % modes)
        for bb in disc:
            t = cp.blocks[bb].term
            d = deep_origins(cp, t["args"][1])
            ctx.check(any(o.kind == "param" and o.data == 1 and any(e[0] == "f" and e[2] == "client" for e in o.path) for o in d),
                      "check_protocol/disconnects-sender", site_of(cp, bb), "DisconnectRequest does not name `trigger.client`")
    # no other inserter of AuthorizedClient in the crate (besides the #[require]-based AuthMethod::None path)
    others = []
    for body in F.real_fns():
        if _is_test(body.path) or body.path == cp.path or body.crate != "bevy_replicon":
            continue
        for bb, t in body.calls():
            d = callee_decl(t)
            if d.rsplit("::", 1)[-1] in ("insert", "spawn", "insert_if_new", "try_insert", "insert_batch") and any(AUTH in a for a in t["callee"].get("args", [])):
                others.append(body.path)
    ctx.check(not others, "AuthorizedClient/no-other-inserter", "", "AuthorizedClient is also inserted by %s" % others)
    # registrations
    obs = [o for o in S.observers if o["handler"] == cp.path]
    ctx.check(len(obs) == 1 and obs[0]["arm"] == [("bevy_replicon::shared::AuthMethod", ("ProtocolCheck",))], "check_protocol/registered-under-ProtocolCheck",
              "", "check_protocol observer registration arms: %s" % [o["arm"] for o in obs])
    req = [r for r in S.required if r["required"] == AUTH]
    ctx.check(len(req) == 1 and req[0]["component"].endswith("ConnectedClient") and req[0]["arm"] == [("bevy_replicon::shared::AuthMethod", ("None",))],
              "AuthorizedClient/auto-required-only-under-None", "", "requirements that add AuthorizedClient: %s" % [(r["component"], r["arm"]) for r in req])
    sp = S.system("client::send_protocol_hash")
    ok = len(sp) == 1 and any(c.endswith("client_just_connected") for c in sp[0]["run_if"]) and sp[0]["arm"]
    ctx.check(ok, "send_protocol_hash/on-connect-under-ProtocolCheck", "", "send_protocol_hash registration: %s" % [(e["run_if"], e["arm"]) for e in sp])
    if sp:
        # the arm is `auth_method == AuthMethod::ProtocolCheck`
        w = F.fns[sp[0]["where"]]
        bb = sp[0]["bb"]
        arm_ok = False
        for (sbb, c, o) in required_outcomes(F, w, bb):
            if c["kind"] == "cmp" and c["rel"] == "==" and o == {True}:
                for side in (c["a"], c["b"]):
                    for x in tracer(w).operand(side):
                        if x.kind == "const" and x.data[0] == "promoted":
                            pb = w.promoted[x.data[1]]
                            for _, _, s in pb.statements():
                                if s["s"] == "assign" and s["rvalue"]["rv"] == "agg" and s["rvalue"].get("adt", "").endswith("AuthMethod"):
                                    arm_ok = s["rvalue"]["variant"] == "ProtocolCheck"
        ctx.check(arm_ok, "send_protocol_hash/arm-is-ProtocolCheck", site_of(w, bb), "the client sends its hash under a condition other than AuthMethod::ProtocolCheck")
    sph = ctx.fn("client::send_protocol_hash")
    trs = tracer(sph)
    sent = [t for bb, t in sph.calls() if "client_trigger" in callee_decl(t)]
    ok = bool(sent) and all(any(o.kind == "param" and "ProtocolHash" in sph.locals[o.data]["ty"] for o in trs.operand(t["args"][1])) for t in sent)
    ctx.check(ok, "send_protocol_hash/sends-own-hash", site_of(sph), "the client does not send its ProtocolHash resource")
    # the hash resource is computed from the hasher at finish and the hasher is removed
    fin = [b for p, b in F.fns.items() if p.endswith("RepliconSharedPlugin as bevy_app::plugin::Plugin>::finish")]
    if fin:
        b = fin[0]
        calls = [callee_decl(t) + "<" + ",".join(t["callee"].get("args", [])) + ">" for bb, t in b.calls()]
        ok = any("remove_resource" in c and "ProtocolHasher" in c for c in calls) and any(c.startswith(HASHER + "::finish") for c in calls) \
            and any("insert_resource" in c and "ProtocolHash" in c for c in calls)
        ctx.check(ok, "shared-plugin/finish-publishes-hash", site_of(b), "RepliconSharedPlugin::finish does not turn the hasher into the ProtocolHash resource")
    else:
        ctx.bad("shared-plugin/finish", "", "RepliconSharedPlugin::finish not found", kind="anchor-missing")


RULES = [
    ("C14.R1", "every registration feeds the protocol hasher (must-call, own type parameter, distinct methods, closed writers)", r1_must_hash, 8, None),
    ("C14.R2", "each hasher method hashes its own part variant together with the type name", r2_hasher_methods, 20, None),
    ("C14.R3", "the hash is deterministic across runs (fixed-key state, only stable values hashed)", r3_determinism, 4, None),
    ("C14.R4", "authorization happens exactly on equal hashes; mismatch notifies and disconnects the sender", r4_handshake, 10, ["default", "all-features"]),
]
THOROUGH_CONFIGS = ["default", "all-features", "server-only", "client-only"]
