//! Fact extractor for the bevy_replicon static checks.
//!
//! A `rustc_private` driver meant to be injected through `RUSTC_WORKSPACE_WRAPPER`
//! under `cargo +nightly check`. For the two workspace library crates it dumps, after
//! analysis, one JSON file with: every fn / assoc fn / closure / (assoc) const body as
//! statement-level MIR with resolved callees, named field projections, constants and
//! macro-expansion provenance; the promoted bodies; ADT definitions; impl blocks.
//! It never changes compilation (always `Compilation::Continue`).
#![feature(rustc_private)]
#![feature(box_patterns)]
extern crate rustc_abi;
extern crate rustc_driver;
extern crate rustc_hir;
extern crate rustc_interface;
extern crate rustc_middle;
extern crate rustc_span;

use rustc_driver::Compilation;
use rustc_hir::def::DefKind;
use rustc_hir::def_id::DefId;
use rustc_interface::interface::Compiler;
use rustc_middle::mir::{
    self, AggregateKind, AssertKind, Operand, Place, ProjectionElem, Rvalue, StatementKind,
    TerminatorKind,
};
use rustc_middle::ty::print::{with_no_trimmed_paths, with_no_visible_paths, with_resolve_crate_name};
use rustc_middle::ty::{self, Instance, Ty, TyCtxt, TypingEnv};
use rustc_span::Span;

mod json;
use json::J;

const CRATES: &[&str] = &["bevy_replicon", "bevy_replicon_example_backend"];

struct Cb;

fn pstr<'tcx>(tcx: TyCtxt<'tcx>, did: DefId) -> String {
    with_no_visible_paths!(with_no_trimmed_paths!(with_resolve_crate_name!(tcx.def_path_str(did))))
}

fn pstr_args<'tcx>(tcx: TyCtxt<'tcx>, did: DefId, args: ty::GenericArgsRef<'tcx>) -> String {
    with_no_visible_paths!(with_no_trimmed_paths!(with_resolve_crate_name!(tcx.def_path_str_with_args(did, args))))
}

fn tstr<'tcx>(ty: Ty<'tcx>) -> String {
    with_no_visible_paths!(with_no_trimmed_paths!(with_resolve_crate_name!(ty.to_string())))
}

fn gargs<'tcx>(args: ty::GenericArgsRef<'tcx>) -> J {
    J::Arr(
        args.iter()
            .map(|a| J::Str(with_no_visible_paths!(with_no_trimmed_paths!(with_resolve_crate_name!(a.to_string())))))
            .collect(),
    )
}

/// Def path of the ADT behind a type after peeling references / raw pointers / Box-like wrappers is
/// left to the consumer; here only the outermost ADT (after peeling refs) is given.
fn adt_of<'tcx>(tcx: TyCtxt<'tcx>, mut ty: Ty<'tcx>) -> J {
    loop {
        match ty.kind() {
            ty::Ref(_, inner, _) => ty = *inner,
            ty::RawPtr(inner, _) => ty = *inner,
            ty::Adt(adt, _) => return J::Str(pstr(tcx, adt.did())),
            _ => return J::Null,
        }
    }
}

fn span_info<'tcx>(tcx: TyCtxt<'tcx>, span: Span) -> (String, Vec<String>) {
    let sm = tcx.sess.source_map();
    let cs = span.source_callsite();
    let loc = sm.lookup_char_pos(cs.lo());
    let file = format!("{}", loc.file.name.prefer_local_unconditionally());
    let mut macros = Vec::new();
    if span.from_expansion() {
        for ed in span.macro_backtrace() {
            match ed.kind {
                rustc_span::ExpnKind::Macro(_, name) => macros.push(name.to_string()),
                rustc_span::ExpnKind::Desugaring(d) => macros.push(format!("desugar:{:?}", d)),
                rustc_span::ExpnKind::AstPass(p) => macros.push(format!("astpass:{:?}", p)),
                rustc_span::ExpnKind::Root => {}
            }
        }
    }
    (format!("{}:{}", file, loc.line), macros)
}

struct Cx<'a, 'tcx> {
    tcx: TyCtxt<'tcx>,
    body: &'a mir::Body<'tcx>,
    tenv: TypingEnv<'tcx>,
}

impl<'a, 'tcx> Cx<'a, 'tcx> {
    fn place(&self, p: &Place<'tcx>) -> J {
        let tcx = self.tcx;
        let mut proj = Vec::new();
        let mut ty = mir::PlaceTy::from_ty(self.body.local_decls[p.local].ty);
        for elem in p.projection.iter() {
            match elem {
                ProjectionElem::Deref => proj.push(J::Str("deref".into())),
                ProjectionElem::Field(f, fty) => {
                    let mut o = vec![("f".to_string(), J::Num(f.as_usize() as i128))];
                    match ty.ty.kind() {
                        ty::Adt(adt, _) => {
                            let v = match ty.variant_index {
                                Some(v) => v,
                                None => rustc_abi::FIRST_VARIANT,
                            };
                            if adt.is_struct() || adt.is_union() || ty.variant_index.is_some() {
                                let vd = adt.variant(v);
                                let fd = &vd.fields[f];
                                o.push(("adt".into(), J::Str(pstr(tcx, adt.did()))));
                                o.push(("name".into(), J::Str(fd.name.to_string())));
                                if adt.is_enum() {
                                    o.push(("variant".into(), J::Str(vd.name.to_string())));
                                }
                            }
                        }
                        ty::Closure(did, _) => {
                            o.push(("closure".into(), J::Str(pstr(tcx, *did))));
                        }
                        ty::Tuple(_) => {
                            o.push(("tuple".into(), J::Bool(true)));
                        }
                        _ => {}
                    }
                    o.push(("ty".into(), J::Str(tstr(fty))));
                    proj.push(J::Obj(o));
                }
                ProjectionElem::Downcast(n, v) => {
                    proj.push(J::Obj(vec![
                        (
                            "downcast".into(),
                            match n {
                                Some(s) => J::Str(s.to_string()),
                                None => J::Null,
                            },
                        ),
                        ("idx".into(), J::Num(v.as_usize() as i128)),
                    ]));
                }
                ProjectionElem::Index(l) => {
                    proj.push(J::Obj(vec![("index".into(), J::Num(l.as_usize() as i128))]));
                }
                ProjectionElem::ConstantIndex { offset, from_end, .. } => {
                    proj.push(J::Obj(vec![
                        ("constindex".into(), J::Num(offset as i128)),
                        ("from_end".into(), J::Bool(from_end)),
                    ]));
                }
                ProjectionElem::Subslice { .. } => proj.push(J::Str("subslice".into())),
                ProjectionElem::OpaqueCast(_) => proj.push(J::Str("opaquecast".into())),
                ProjectionElem::UnwrapUnsafeBinder(_) => proj.push(J::Str("unwrapbinder".into())),
            }
            ty = ty.projection_ty(tcx, elem);
        }
        J::Obj(vec![("l".into(), J::Num(p.local.as_usize() as i128)), ("p".into(), J::Arr(proj))])
    }

    fn constant(&self, c: &mir::ConstOperand<'tcx>) -> J {
        let tcx = self.tcx;
        let cty = c.const_.ty();
        let mut o = vec![("k".to_string(), J::Str("const".into())), ("ty".into(), J::Str(tstr(cty)))];
        match cty.kind() {
            ty::FnDef(did, args) => {
                o.push(("fndef".into(), J::Str(pstr(tcx, *did))));
                o.push(("args".into(), gargs(args)));
                if let Ok(Some(inst)) = Instance::try_resolve(tcx, self.tenv, *did, args) {
                    o.push(("resolved".into(), J::Str(pstr(tcx, inst.def_id()))));
                }
            }
            ty::Closure(did, _) => {
                o.push(("closure".into(), J::Str(pstr(tcx, *did))));
            }
            _ => {}
        }
        // promoted reference?
        if let mir::Const::Unevaluated(uv, _) = c.const_ {
            if let Some(p) = uv.promoted {
                o.push(("promoted".into(), J::Num(p.as_usize() as i128)));
            } else {
                o.push(("unevaluated".into(), J::Str(pstr(tcx, uv.def))));
            }
        }
        // scalar value if cheaply available
        let is_scalar_ty = matches!(
            cty.kind(),
            ty::Bool | ty::Char | ty::Int(_) | ty::Uint(_)
        );
        if is_scalar_ty {
            let promoted = matches!(c.const_, mir::Const::Unevaluated(uv, _) if uv.promoted.is_some());
            if !promoted {
                if let Some(si) = c.const_.try_eval_scalar_int(tcx, self.tenv) {
                    let size = si.size();
                    let v: i128 = match cty.kind() {
                        ty::Int(_) => si.to_int(size),
                        _ => si.to_uint(size) as i128,
                    };
                    o.push(("val".into(), J::Num(v)));
                }
            }
        }
        if let ty::Ref(_, inner, _) = cty.kind() {
            if inner.is_str() {
                // string literal: debug print is good enough
                o.push(("str".into(), J::Str(format!("{}", c.const_))));
            }
        }
        J::Obj(o)
    }

    fn operand(&self, o: &Operand<'tcx>) -> J {
        match o {
            Operand::Copy(p) => J::Obj(vec![("k".into(), J::Str("copy".into())), ("place".into(), self.place(p))]),
            Operand::Move(p) => J::Obj(vec![("k".into(), J::Str("move".into())), ("place".into(), self.place(p))]),
            Operand::Constant(c) => self.constant(c),
            #[allow(unreachable_patterns)]
            other => J::Obj(vec![("k".into(), J::Str("runtime".into())), ("dbg".into(), J::Str(format!("{:?}", other)))]),
        }
    }

    fn rvalue(&self, rv: &Rvalue<'tcx>) -> J {
        let tcx = self.tcx;
        let k = |s: &str| ("rv".to_string(), J::Str(s.to_string()));
        match rv {
            Rvalue::Use(o, _) => J::Obj(vec![k("use"), ("op".into(), self.operand(o))]),
            Rvalue::Repeat(o, n) => J::Obj(vec![
                k("repeat"),
                ("op".into(), self.operand(o)),
                ("n".into(), J::Str(format!("{}", n))),
            ]),
            Rvalue::Ref(_, bk, p) => J::Obj(vec![
                k("ref"),
                ("mut".into(), J::Bool(matches!(bk, mir::BorrowKind::Mut { .. }))),
                ("place".into(), self.place(p)),
            ]),
            Rvalue::RawPtr(kind, p) => J::Obj(vec![
                k("rawptr"),
                ("mut".into(), J::Bool(matches!(kind, mir::RawPtrKind::Mut))),
                ("place".into(), self.place(p)),
            ]),
            Rvalue::Cast(ck, o, t) => {
                let mut v = vec![k("cast"), ("op".into(), self.operand(o)), ("ty".into(), J::Str(tstr(*t)))];
                let kind = match ck {
                    mir::CastKind::PointerCoercion(pc, _) => format!("ptrcoerce:{:?}", pc),
                    other => format!("{:?}", other),
                };
                v.push(("kind".into(), J::Str(kind)));
                J::Obj(v)
            }
            Rvalue::BinaryOp(op, box (a, b)) => J::Obj(vec![
                k("bin"),
                ("op".into(), J::Str(format!("{:?}", op))),
                ("a".into(), self.operand(a)),
                ("b".into(), self.operand(b)),
            ]),
            Rvalue::UnaryOp(op, a) => J::Obj(vec![
                k("un"),
                ("op".into(), J::Str(format!("{:?}", op))),
                ("a".into(), self.operand(a)),
            ]),
            Rvalue::Discriminant(p) => J::Obj(vec![k("discr"), ("place".into(), self.place(p))]),
            Rvalue::Aggregate(box kind, ops) => {
                let mut v = vec![k("agg")];
                match kind {
                    AggregateKind::Array(t) => {
                        v.push(("kind".into(), J::Str("array".into())));
                        v.push(("ty".into(), J::Str(tstr(*t))));
                    }
                    AggregateKind::Tuple => v.push(("kind".into(), J::Str("tuple".into()))),
                    AggregateKind::Adt(did, vidx, args, _, _) => {
                        v.push(("kind".into(), J::Str("adt".into())));
                        v.push(("adt".into(), J::Str(pstr(tcx, *did))));
                        let adt = tcx.adt_def(*did);
                        let vd = adt.variant(*vidx);
                        v.push(("variant".into(), J::Str(vd.name.to_string())));
                        v.push(("vidx".into(), J::Num(vidx.as_usize() as i128)));
                        v.push(("fields".into(), J::Arr(vd.fields.iter().map(|f| J::Str(f.name.to_string())).collect())));
                        v.push(("args".into(), gargs(args)));
                    }
                    AggregateKind::Closure(did, args) => {
                        v.push(("kind".into(), J::Str("closure".into())));
                        v.push(("closure".into(), J::Str(pstr(tcx, *did))));
                        let _ = args;
                    }
                    AggregateKind::Coroutine(did, _) | AggregateKind::CoroutineClosure(did, _) => {
                        v.push(("kind".into(), J::Str("coroutine".into())));
                        v.push(("closure".into(), J::Str(pstr(tcx, *did))));
                    }
                    AggregateKind::RawPtr(..) => v.push(("kind".into(), J::Str("rawptr".into()))),
                }
                v.push(("ops".into(), J::Arr(ops.iter().map(|o| self.operand(o)).collect())));
                J::Obj(v)
            }
            Rvalue::CopyForDeref(p) => J::Obj(vec![
                k("use"),
                ("op".into(), J::Obj(vec![("k".into(), J::Str("copy".into())), ("place".into(), self.place(p))])),
            ]),
            other => J::Obj(vec![k("other"), ("dbg".into(), J::Str(format!("{:?}", other)))]),
        }
    }

    fn callee(&self, func: &Operand<'tcx>) -> J {
        let tcx = self.tcx;
        if let Operand::Constant(c) = func {
            if let ty::FnDef(cd, cargs) = c.const_.ty().kind() {
                let mut o = vec![
                    ("path".to_string(), J::Str(pstr(tcx, *cd))),
                    ("args".into(), gargs(cargs)),
                    ("full".into(), J::Str(pstr_args(tcx, *cd, cargs))),
                    ("krate".into(), J::Str(tcx.crate_name(cd.krate).to_string())),
                ];
                if let Some(tr) = tcx.trait_of_assoc(*cd) {
                    o.push(("trait".into(), J::Str(pstr(tcx, tr))));
                }
                if let Some(imp) = tcx.impl_of_assoc(*cd) {
                    let self_ty = tcx.type_of(imp).instantiate_identity().skip_norm_wip();
                    o.push(("impl_self".into(), J::Str(tstr(self_ty))));
                    o.push(("impl_self_adt".into(), adt_of(tcx, self_ty)));
                }
                match Instance::try_resolve(tcx, self.tenv, *cd, cargs) {
                    Ok(Some(inst)) => {
                        let rd = inst.def_id();
                        o.push(("resolved".into(), J::Str(pstr(tcx, rd))));
                        o.push(("resolved_krate".into(), J::Str(tcx.crate_name(rd.krate).to_string())));
                        o.push(("resolved_args".into(), gargs(inst.args)));
                        let kind_name = match inst.def {
                            ty::InstanceKind::Item(_) => "item",
                            ty::InstanceKind::Virtual(..) => "virtual",
                            ty::InstanceKind::ClosureOnceShim { .. } => "closure_once_shim",
                            ty::InstanceKind::FnPtrShim(..) => "fnptr_shim",
                            ty::InstanceKind::DropGlue(..) => "drop_glue",
                            ty::InstanceKind::CloneShim(..) => "clone_shim",
                            ty::InstanceKind::Intrinsic(_) => "intrinsic",
                            _ => "other",
                        };
                        o.push(("resolved_kind".into(), J::Str(kind_name.into())));
                        if let ty::InstanceKind::Virtual(..) = inst.def {
                            o.push(("virtual".into(), J::Bool(true)));
                        }
                    }
                    _ => {}
                }
                return J::Obj(o);
            }
        }
        J::Obj(vec![("indirect".into(), self.operand(func)), ("fnptr_ty".into(), J::Str(tstr(func.ty(self.body, tcx))))])
    }

    fn terminator(&self, term: &mir::Terminator<'tcx>) -> J {
        let tcx = self.tcx;
        let (loc, macros) = span_info(tcx, term.source_info.span);
        let mut o: Vec<(String, J)> = Vec::new();
        match &term.kind {
            TerminatorKind::Call { func, args, destination, target, fn_span, .. } => {
                o.push(("t".into(), J::Str("call".into())));
                o.push(("callee".into(), self.callee(func)));
                o.push(("args".into(), J::Arr(args.iter().map(|a| self.operand(&a.node)).collect())));
                o.push(("dest".into(), self.place(destination)));
                o.push(("target".into(), match target { Some(t) => J::Num(t.as_usize() as i128), None => J::Null }));
                let _ = fn_span;
            }
            TerminatorKind::TailCall { func, args, .. } => {
                o.push(("t".into(), J::Str("tailcall".into())));
                o.push(("callee".into(), self.callee(func)));
                o.push(("args".into(), J::Arr(args.iter().map(|a| self.operand(&a.node)).collect())));
            }
            TerminatorKind::SwitchInt { discr, targets } => {
                o.push(("t".into(), J::Str("switch".into())));
                o.push(("discr".into(), self.operand(discr)));
                o.push(("discr_ty".into(), J::Str(tstr(discr.ty(self.body, tcx)))));
                o.push((
                    "targets".into(),
                    J::Arr(targets.iter().map(|(v, b)| J::Arr(vec![J::Num(v as i128), J::Num(b.as_usize() as i128)])).collect()),
                ));
                o.push(("otherwise".into(), J::Num(targets.otherwise().as_usize() as i128)));
            }
            TerminatorKind::Assert { cond, expected, msg, target, .. } => {
                o.push(("t".into(), J::Str("assert".into())));
                o.push(("cond".into(), self.operand(cond)));
                o.push(("expected".into(), J::Bool(*expected)));
                let (kind, ops): (String, Vec<J>) = match &**msg {
                    AssertKind::BoundsCheck { len, index } => ("BoundsCheck".into(), vec![self.operand(len), self.operand(index)]),
                    AssertKind::Overflow(op, a, b) => (format!("Overflow:{:?}", op), vec![self.operand(a), self.operand(b)]),
                    AssertKind::OverflowNeg(a) => ("OverflowNeg".into(), vec![self.operand(a)]),
                    AssertKind::DivisionByZero(a) => ("DivisionByZero".into(), vec![self.operand(a)]),
                    AssertKind::RemainderByZero(a) => ("RemainderByZero".into(), vec![self.operand(a)]),
                    AssertKind::MisalignedPointerDereference { .. } => ("MisalignedPointerDereference".into(), vec![]),
                    AssertKind::NullPointerDereference => ("NullPointerDereference".into(), vec![]),
                    other => (format!("{:?}", std::mem::discriminant(other)), vec![]),
                };
                o.push(("kind".into(), J::Str(kind)));
                o.push(("ops".into(), J::Arr(ops)));
                o.push(("target".into(), J::Num(target.as_usize() as i128)));
            }
            TerminatorKind::Goto { target } => {
                o.push(("t".into(), J::Str("goto".into())));
                o.push(("target".into(), J::Num(target.as_usize() as i128)));
            }
            TerminatorKind::Return => o.push(("t".into(), J::Str("return".into()))),
            TerminatorKind::Unreachable => o.push(("t".into(), J::Str("unreachable".into()))),
            TerminatorKind::Drop { place, target, .. } => {
                o.push(("t".into(), J::Str("drop".into())));
                o.push(("place".into(), self.place(place)));
                o.push(("target".into(), J::Num(target.as_usize() as i128)));
            }
            TerminatorKind::FalseEdge { real_target, .. } => {
                o.push(("t".into(), J::Str("goto".into())));
                o.push(("target".into(), J::Num(real_target.as_usize() as i128)));
            }
            TerminatorKind::FalseUnwind { real_target, .. } => {
                o.push(("t".into(), J::Str("goto".into())));
                o.push(("target".into(), J::Num(real_target.as_usize() as i128)));
            }
            TerminatorKind::UnwindResume => o.push(("t".into(), J::Str("resume".into()))),
            TerminatorKind::UnwindTerminate(_) => o.push(("t".into(), J::Str("terminate".into()))),
            other => {
                o.push(("t".into(), J::Str("other".into())));
                o.push(("dbg".into(), J::Str(format!("{:?}", std::mem::discriminant(other)))));
            }
        }
        o.push(("span".into(), J::Str(loc)));
        if !macros.is_empty() {
            o.push(("macros".into(), J::Arr(macros.into_iter().map(J::Str).collect())));
        }
        J::Obj(o)
    }

    fn body_json(&self) -> Vec<(String, J)> {
        let tcx = self.tcx;
        let body = self.body;
        let mut names: Vec<Option<String>> = vec![None; body.local_decls.len()];
        for vdi in &body.var_debug_info {
            if let mir::VarDebugInfoContents::Place(p) = &vdi.value {
                if p.projection.is_empty() {
                    names[p.local.as_usize()] = Some(vdi.name.to_string());
                }
            }
        }
        let locals: Vec<J> = body
            .local_decls
            .iter_enumerated()
            .map(|(l, d)| {
                let mut o = vec![("ty".to_string(), J::Str(tstr(d.ty)))];
                if let J::Str(a) = adt_of(tcx, d.ty) {
                    o.push(("adt".into(), J::Str(a)));
                }
                if let Some(n) = &names[l.as_usize()] {
                    o.push(("name".into(), J::Str(n.clone())));
                }
                J::Obj(o)
            })
            .collect();
        // closure captures referenced through debuginfo: name -> projection on _1
        let mut upvars = Vec::new();
        for vdi in &body.var_debug_info {
            if let mir::VarDebugInfoContents::Place(p) = &vdi.value {
                if !p.projection.is_empty() {
                    upvars.push(J::Obj(vec![("name".into(), J::Str(vdi.name.to_string())), ("place".into(), self.place(p))]));
                }
            }
        }
        let blocks: Vec<J> = body
            .basic_blocks
            .iter()
            .map(|data| {
                let mut stmts = Vec::new();
                for st in &data.statements {
                    match &st.kind {
                        StatementKind::Assign(box (place, rv)) => {
                            let (loc, macros) = span_info(tcx, st.source_info.span);
                            let mut o = vec![
                                ("s".to_string(), J::Str("assign".into())),
                                ("place".into(), self.place(place)),
                                ("rvalue".into(), self.rvalue(rv)),
                                ("span".into(), J::Str(loc)),
                            ];
                            if !macros.is_empty() {
                                o.push(("macros".into(), J::Arr(macros.into_iter().map(J::Str).collect())));
                            }
                            stmts.push(J::Obj(o));
                        }
                        StatementKind::SetDiscriminant { place, variant_index } => {
                            stmts.push(J::Obj(vec![
                                ("s".to_string(), J::Str("setdiscr".into())),
                                ("place".into(), self.place(place)),
                                ("vidx".into(), J::Num(variant_index.as_usize() as i128)),
                            ]));
                        }
                        StatementKind::Intrinsic(box ndi) => {
                            stmts.push(J::Obj(vec![
                                ("s".to_string(), J::Str("intrinsic".into())),
                                ("dbg".into(), J::Str(format!("{:?}", ndi))),
                            ]));
                        }
                        _ => {}
                    }
                }
                let term = match &data.terminator {
                    Some(t) => self.terminator(t),
                    None => J::Null,
                };
                J::Obj(vec![
                    ("cleanup".into(), J::Bool(data.is_cleanup)),
                    ("stmts".into(), J::Arr(stmts)),
                    ("term".into(), term),
                ])
            })
            .collect();
        vec![
            ("arg_count".to_string(), J::Num(body.arg_count as i128)),
            ("locals".into(), J::Arr(locals)),
            ("upvars".into(), J::Arr(upvars)),
            ("blocks".into(), J::Arr(blocks)),
        ]
    }
}

fn vis_str<'tcx>(tcx: TyCtxt<'tcx>, v: ty::Visibility<DefId>) -> String {
    match v {
        ty::Visibility::Public => "pub".into(),
        ty::Visibility::Restricted(did) => {
            if did.is_crate_root() {
                "crate".into()
            } else {
                format!("restricted:{}", pstr(tcx, did))
            }
        }
    }
}

fn is_cfg_test_path(path: &str) -> bool {
    path.contains("::tests::") || path.ends_with("::tests")
}

impl rustc_driver::Callbacks for Cb {
    fn after_analysis<'tcx>(&mut self, _c: &Compiler, tcx: TyCtxt<'tcx>) -> Compilation {
        let krate = tcx.crate_name(rustc_span::def_id::LOCAL_CRATE);
        let name = krate.as_str().to_string();
        if !CRATES.contains(&name.as_str()) {
            return Compilation::Continue;
        }
        // Only library targets of the two crates (examples/tests/benches have other crate names
        // or are never built by `cargo check --lib`).
        let Ok(dir) = std::env::var("REPLICON_FACTS_DIR") else {
            return Compilation::Continue;
        };
        let mut fns: Vec<(String, J)> = Vec::new();
        for ldid in tcx.mir_keys(()) {
            let did = ldid.to_def_id();
            let kind = tcx.def_kind(did);
            let is_fn = matches!(kind, DefKind::Fn | DefKind::AssocFn | DefKind::Closure);
            let is_const = matches!(kind, DefKind::AssocConst { .. } | DefKind::Const { .. } | DefKind::Static { .. });
            if !is_fn && !is_const {
                continue;
            }
            let path = pstr(tcx, did);
            if is_cfg_test_path(&path) {
                continue;
            }
            if is_fn && !tcx.is_mir_available(did) {
                continue;
            }
            let body: &mir::Body<'tcx> = if is_fn {
                tcx.optimized_mir(did)
            } else {
                tcx.mir_for_ctfe(did)
            };
            let tenv = TypingEnv::post_analysis(tcx, did);
            let cx = Cx { tcx, body, tenv };
            let (loc, macros) = span_info(tcx, body.span);
            let sm = tcx.sess.source_map();
            let end_line = sm.lookup_char_pos(body.span.source_callsite().hi()).line;
            let mut o: Vec<(String, J)> = vec![
                ("kind".into(), J::Str(format!("{:?}", kind))),
                ("span".into(), J::Str(loc)),
                ("end_line".into(), J::Num(end_line as i128)),
            ];
            if !macros.is_empty() {
                o.push(("macros".into(), J::Arr(macros.into_iter().map(J::Str).collect())));
            }
            if matches!(kind, DefKind::Fn | DefKind::AssocFn) {
                o.push(("vis".into(), J::Str(vis_str(tcx, tcx.visibility(did)))));
                let sig = tcx.fn_sig(did).instantiate_identity().skip_norm_wip().skip_binder();
                o.push(("inputs".into(), J::Arr(sig.inputs().iter().map(|t| J::Str(tstr(*t))).collect())));
                o.push(("output".into(), J::Str(tstr(sig.output()))));
                let generics = tcx.generics_of(did);
                let mut gp = Vec::new();
                let mut g = Some(generics);
                while let Some(gg) = g {
                    for p in &gg.own_params {
                        gp.push(J::Str(p.name.to_string()));
                    }
                    g = gg.parent.map(|p| tcx.generics_of(p));
                }
                o.push(("generics".into(), J::Arr(gp)));
            }
            if matches!(kind, DefKind::Closure) {
                let parent = tcx.typeck_root_def_id(did);
                o.push(("closure_root".into(), J::Str(pstr(tcx, parent))));
                o.push(("closure_parent".into(), J::Str(pstr(tcx, tcx.parent(did)))));
            }
            if matches!(kind, DefKind::AssocFn | DefKind::AssocConst { .. }) {
                if let Some(imp) = tcx.impl_of_assoc(did) {
                    let self_ty = tcx.type_of(imp).instantiate_identity().skip_norm_wip();
                    o.push(("impl_self".into(), J::Str(tstr(self_ty))));
                    o.push(("impl_self_adt".into(), adt_of(tcx, self_ty)));
                    if let Some(tr) = tcx.impl_opt_trait_ref(imp) {
                        let tr = tr.instantiate_identity().skip_norm_wip();
                        o.push(("impl_trait".into(), J::Str(pstr(tcx, tr.def_id))));
                        o.push(("impl_trait_args".into(), gargs(tr.args)));
                    }
                    o.push(("derived".into(), J::Bool(tcx.is_automatically_derived(imp))));
                } else if let Some(tr) = tcx.trait_of_assoc(did) {
                    o.push(("in_trait".into(), J::Str(pstr(tcx, tr))));
                }
            }
            o.extend(cx.body_json());
            if is_fn {
                let promoted = tcx.promoted_mir(did);
                let mut ps = Vec::new();
                for pb in promoted.iter() {
                    let pcx = Cx { tcx, body: pb, tenv };
                    ps.push(J::Obj(pcx.body_json()));
                }
                o.push(("promoted".into(), J::Arr(ps)));
            }
            fns.push((path, J::Obj(o)));
        }

        // ADTs
        let mut adts: Vec<(String, J)> = Vec::new();
        let mut impls: Vec<J> = Vec::new();
        for id in tcx.hir_crate_items(()).definitions() {
            let did = id.to_def_id();
            match tcx.def_kind(did) {
                DefKind::Struct | DefKind::Enum | DefKind::Union => {
                    let path = pstr(tcx, did);
                    if is_cfg_test_path(&path) {
                        continue;
                    }
                    let adt = tcx.adt_def(did);
                    let mut variants = Vec::new();
                    for (vidx, vd) in adt.variants().iter_enumerated() {
                        let fields: Vec<J> = vd
                            .fields
                            .iter()
                            .map(|f| {
                                J::Obj(vec![
                                    ("name".into(), J::Str(f.name.to_string())),
                                    ("ty".into(), J::Str(tstr(tcx.type_of(f.did).instantiate_identity().skip_norm_wip()))),
                                    ("vis".into(), J::Str(vis_str(tcx, f.vis))),
                                ])
                            })
                            .collect();
                        let mut vo = vec![
                            ("name".to_string(), J::Str(vd.name.to_string())),
                            ("idx".into(), J::Num(vidx.as_usize() as i128)),
                            ("fields".into(), J::Arr(fields)),
                        ];
                        if adt.is_enum() {
                            let d = adt.discriminant_for_variant(tcx, vidx);
                            vo.push(("discr".into(), J::Num(d.val as i128)));
                        }
                        variants.push(J::Obj(vo));
                    }
                    let (loc, _) = span_info(tcx, tcx.def_span(did));
                    adts.push((
                        path,
                        J::Obj(vec![
                            ("kind".into(), J::Str(format!("{:?}", tcx.def_kind(did)))),
                            ("vis".into(), J::Str(vis_str(tcx, tcx.visibility(did)))),
                            ("span".into(), J::Str(loc)),
                            ("variants".into(), J::Arr(variants)),
                        ]),
                    ));
                }
                DefKind::Impl { of_trait } => {
                    let self_ty = tcx.type_of(did).instantiate_identity().skip_norm_wip();
                    let mut o = vec![
                        ("self".to_string(), J::Str(tstr(self_ty))),
                        ("self_adt".into(), adt_of(tcx, self_ty)),
                        ("derived".into(), J::Bool(tcx.is_automatically_derived(did))),
                    ];
                    if of_trait {
                        if let Some(tr) = tcx.impl_opt_trait_ref(did) {
                            let tr = tr.instantiate_identity().skip_norm_wip();
                            o.push(("trait".into(), J::Str(pstr(tcx, tr.def_id))));
                            o.push(("trait_args".into(), gargs(tr.args)));
                        }
                    }
                    let items: Vec<J> = tcx
                        .associated_item_def_ids(did)
                        .iter()
                        .map(|d| J::Str(pstr(tcx, *d)))
                        .collect();
                    o.push(("items".into(), J::Arr(items)));
                    let (loc, macros) = span_info(tcx, tcx.def_span(did));
                    o.push(("span".into(), J::Str(loc)));
                    if !macros.is_empty() {
                        o.push(("macros".into(), J::Arr(macros.into_iter().map(J::Str).collect())));
                    }
                    impls.push(J::Obj(o));
                }
                _ => {}
            }
        }

        let features: Vec<J> = std::env::args()
            .collect::<Vec<_>>()
            .windows(2)
            .filter(|w| w[0] == "--cfg" && w[1].starts_with("feature="))
            .map(|w| J::Str(w[1].clone()))
            .collect();
        let top = J::Obj(vec![
            ("crate".into(), J::Str(name.clone())),
            ("features".into(), J::Arr(features)),
            ("debug_assertions".into(), J::Bool(tcx.sess.opts.debug_assertions)),
            ("overflow_checks".into(), J::Bool(tcx.sess.overflow_checks())),
            ("fns".into(), J::Obj(fns)),
            ("adts".into(), J::Obj(adts)),
            ("impls".into(), J::Arr(impls)),
        ]);
        std::fs::create_dir_all(&dir).unwrap();
        let tmp = format!("{}/.{}-{}.tmp", dir, name, std::process::id());
        let fin = format!("{}/{}.json", dir, name);
        let mut s = String::new();
        top.write(&mut s);
        std::fs::write(&tmp, s).unwrap();
        std::fs::rename(&tmp, &fin).unwrap();
        Compilation::Continue
    }
}

fn main() {
    let mut args: Vec<String> = std::env::args().collect();
    // RUSTC_WORKSPACE_WRAPPER passes the real rustc as argv[1].
    if args.len() > 1 && (args[1].ends_with("rustc") || args[1].contains("/rustc")) {
        args.remove(1);
    }
    rustc_driver::run_compiler(&args, &mut Cb);
}
