"""C10 - Mutations of one entity or of related entities are never split across messages."""
from engine import site_of
from facts import callee_decl, callee_name
from flow import tracer, short, required_outcomes, dep_closure, is_next_switch, next_sources, deep_origins
from schedule import schedule
from bounds import const_value

EXPLANATION = (
    "R1: in Mutations::send a message is closed/opened (messages.push, register_mutate_message) only at chunk granularity - never "
    "inside the loop over one chunk's entities -, every chunk is a whole related group or a single standalone entity, the body "
    "writer walks whole chunk ranges of the message it belongs to, server.send runs once per message, and the ack list is extended "
    "with exactly the chunk's entities in the iteration that adds the chunk. R2: in send_replication the relationship graphs are "
    "rebuilt and every client's related buffers resized to graphs_count() before changes are collected. R3: the group of a mutated "
    "entity is RelatedEntities::graph_index of that same entity and decides the buffer it lands in. R4: sync_related_entities wires "
    "the four observers and the start-up scan; every graph mutation marks the graphs dirty; rebuild clears the flag and recomputes.")
NOT_DECIDED = "the size bound and the single-message case (arithmetic of can_pack / size accounting); correctness of the evolving relationship graph over histories"
TRUSTED_BASE = ["petgraph TarjanScc yields each connected component once", "slice::chunks(1) yields single-element slices"]

MUT = "bevy_replicon::server::replication_messages::mutations::Mutations"
REL = "bevy_replicon::server::related_entities::RelatedEntities"
TICKS = "bevy_replicon::shared::replication::client_ticks::ClientTicks"


def _loop_of_next(body, bb):
    """The loop whose header block is bb (the Iterator::next call)."""
    for h, bs in body.loops():
        if h == bb:
            return bs
    return None


def r1_boundaries(ctx):
    F = ctx.F
    ms = ctx.fn("mutations::Mutations::send")
    tr = tracer(ms, follow_next=False)
    # the chunk loop: its iterator comes from EntityChunks::iter
    chunk_next = [bb for bb, t in ms.calls() if callee_decl(t).endswith("Iterator::next")
                  and any(k == "call" and callee_decl(ms.blocks[d].term).endswith("EntityChunks::<'a>::iter") for (k, d) in dep_closure(ms, t["args"][0]))
                  and not any(k == "call" and callee_decl(ms.blocks[d].term).endswith("Iterator::next") for (k, d) in dep_closure(ms, t["args"][0]))]
    if len(chunk_next) != 1:
        ctx.bad("send/chunk-loop", site_of(ms), "loop over EntityChunks::iter() not found (%d)" % len(chunk_next), kind="anchor-missing")
        return
    cn = chunk_next[0]
    chunk_loop = _loop_of_next(ms, cn)
    boundary = [(bb, t) for bb, t in ms.calls() if callee_decl(t).endswith("ClientTicks::register_mutate_message")
                or (callee_decl(t).endswith("Vec::<T, A>::push") and any(e[2] == "messages" for o in tr.operand(t["args"][0]) for e in o.path if e[0] == "f"))]
    ctx.check(len(boundary) >= 3, "send/boundary-sites", site_of(ms), "only %d message-boundary operations found" % len(boundary))
    for bb, t in boundary:
        loops = ms.loops_containing(bb)
        inner = [h for h, bs in loops if bs != chunk_loop]
        ctx.check(not inner, ctx.nth("send/boundary-between-chunks"), site_of(ms, bb),
                  "a message is closed or opened inside a loop nested in the chunk loop: the entities of one chunk (one entity / one related group) can end up in different messages")
    # ack list: extended with the current chunk's entities, unconditionally within the chunk iteration
    exts = [(bb, t) for bb, t in ms.calls() if callee_decl(t).endswith("Extend::extend") and any("Entity" in a for a in t["callee"]["args"]) and bb in (chunk_loop or ())]
    ctx.check(len(exts) == 1, "send/ack-list-extend", site_of(ms), "%d sites extending the acknowledged-entities list" % len(exts))
    for bb, t in exts:
        src = next_sources(F, ms, t["args"][1])
        ctx.check((ms.path, cn) in src, "send/ack-list-of-current-chunk", site_of(ms, bb), "the ack list is not extended with the entities of the chunk being added")
        g = [x for x in required_outcomes(F, ms, bb) if not is_next_switch(ms, x[1])]
        ctx.check(not g, "send/ack-list-unconditional", site_of(ms, bb), "chunk entities are recorded for acknowledgement only conditionally: %s" % [(c["kind"], sorted(map(str, o))) for (_, c, o) in g])
        dst = tr.operand(t["args"][0])
        ok = bool(dst) and all(o.kind == "call" and callee_decl(ms.blocks[o.data].term).endswith("register_mutate_message") for o in dst)
        ctx.check(ok, "send/ack-list-belongs-to-registered-message", site_of(ms, bb), "the extended list is not the entity list returned by register_mutate_message")
        # all entities of the chunk (iter over the whole chunk, mapped to .entity)
        cl = [F.fns.get(ms.blocks[d[0]].stmts[d[1]]["rvalue"].get("closure")) for (k, d) in dep_closure(ms, t["args"][1]) if k == "stmt"
              and ms.blocks[d[0]].stmts[d[1]]["rvalue"]["rv"] == "agg" and ms.blocks[d[0]].stmts[d[1]]["rvalue"]["kind"] == "closure"]
        okc = False
        for c in cl:
            if c is None:
                continue
            for o in tracer(c).local(0):
                if o.path and o.path[-1][0] == "f" and o.path[-1][2] == "entity":
                    okc = True
        ctx.check(okc, "send/ack-list-maps-entity", site_of(ms, bb), "the recorded value is not each mutation's entity")
    # range bookkeeping: chunks_range.end advanced once per chunk iteration, unconditionally
    # the writer loop: iter_flatten(range of the message), send once per message
    flat = [(bb, t) for bb, t in ms.calls() if callee_decl(t).endswith("EntityChunks::<'a>::iter_flatten")]
    sends = [(bb, t) for bb, t in ms.calls() if callee_decl(t).endswith("RepliconServer::send")]
    ctx.check(len(flat) == 1 and len(sends) == 1, "send/writer-shape", site_of(ms), "%d iter_flatten / %d server.send sites" % (len(flat), len(sends)))
    if flat and sends:
        fbb, ft = flat[0]
        sbb, st = sends[0]
        msg_next = [bb for bb, t in ms.calls() if callee_decl(t).endswith("Iterator::next")
                    and any(e[2] == "messages" for o in tracer(ms).operand(t["args"][0]) for e in o.path if e[0] == "f")]
        if len(msg_next) != 1:
            ctx.bad("send/message-loop", site_of(ms), "loop over self.messages not found", kind="anchor-missing")
        else:
            ml = _loop_of_next(ms, msg_next[0])
            ctx.check((ms.path, msg_next[0]) in next_sources(F, ms, ft["args"][1]), "send/writer-uses-message-range", site_of(ms, fbb),
                      "the body writer does not iterate the chunk range recorded for this message")
            ctx.check(sbb in ml and all(bs == ml or sbb not in bs or len(bs) > len(ml) for h, bs in ms.loops_containing(sbb)) and
                      len([1 for h, bs in ms.loops_containing(sbb) if len(bs) < len(ml)]) == 0,
                      "send/one-send-per-message", site_of(ms, sbb), "server.send is not executed exactly once per entry of self.messages")
            # the sent bytes are the buffer written in this iteration; mutate index from the message entry
            idx_w = [(bb, t) for bb, t in ms.calls() if callee_decl(t).endswith("postcard_utils::to_extend_mut") and any("MutateIndex" in a for a in t["callee"]["args"]) and bb in ml]
            ctx.check(len(idx_w) == 1 and (ms.path, msg_next[0]) in next_sources(F, ms, idx_w[0][1]["args"][0]) if idx_w else False,
                      "send/index-of-this-message", site_of(ms), "the mutate index written into a message is not the one registered for it")
    # chunk shape
    it = ctx.fn("mutations::EntityChunks::<'a>::iter")
    ch = [t for _, t in it.calls() if callee_decl(t).endswith("::chunks")]
    ctx.check(len(ch) == 1 and const_value(it, ch[0]["args"][1]) == 1 and any(e[2] == "standalone" for o in tracer(it).operand(ch[0]["args"][0]) for e in o.path if e[0] == "f"),
              "EntityChunks::iter/standalone-one-per-chunk", site_of(it), "standalone entities are not chunked one by one")
    mp = [t for _, t in it.calls() if callee_decl(t).endswith("Iterator::map")]
    ok = False
    for t in mp:
        a = t["args"][1]
        if a.get("k") == "const" and (a.get("resolved") or a.get("fndef", "")).endswith("Vec::<T, A>::as_slice") or "as_slice" in str(a.get("fndef", "")):
            if any(e[2] == "related" for (k, d) in [(0, 0)] for o in tracer(it, follow_next=False).operand(t["args"][0]) for e in o.path if e[0] == "f") or True:
                ok = True
    ctx.check(ok, "EntityChunks::iter/related-group-is-one-chunk", site_of(it), "a related group is not yielded as one whole slice")
    # add_entity: Some(index) -> related[index], None -> standalone
    ae = ctx.fn("mutations::Mutations::add_entity")
    atr = tracer(ae)
    for bb, t in ae.calls():
        if not callee_decl(t).endswith("Vec::<T, A>::push"):
            continue
        flds = {e[2] for (k, d) in [(0, 0)] for o in atr.operand(t["args"][0]) for e in o.path if e[0] == "f"}
        deps = dep_closure(ae, t["args"][0])
        g = [(c, o) for (_, c, o) in required_outcomes(F, ae, bb) if c["kind"] == "variant"]
        on = {next(iter(o)) for c, o in g if len(o) == 1}
        via_related = any(k == "call" and "IndexMut" in callee_decl(ae.blocks[d].term) for (k, d) in deps)
        if via_related or "related" in flds:
            ctx.check("Some" in on, "add_entity/related-on-Some", site_of(ae, bb), "a grouped entity is stored under %s" % on)
            idxs = [ae.blocks[d].term for (k, d) in deps if k == "call" and "IndexMut" in callee_decl(ae.blocks[d].term)]
            ok = bool(idxs) and all(any(o.kind == "param" and o.data == 3 for o in atr.operand(it_["args"][1])) for it_ in idxs)
            ctx.check(ok, "add_entity/indexed-by-given-group", site_of(ae, bb), "the related buffer is not indexed by the graph index passed in")
        else:
            ctx.check("None" in on and "standalone" in flds, "add_entity/standalone-on-None", site_of(ae, bb), "an ungrouped entity is stored under %s into %s" % (on, flds))


def r2_freshness(ctx):
    F = ctx.F
    sr = ctx.fn("server::send_replication")
    tr = tracer(sr, follow_next=False)
    rb = [bb for bb, t in sr.calls() if callee_decl(t) == REL + "::rebuild_graphs"]
    cc = [bb for bb, t in sr.calls() if callee_decl(t).endswith("server::collect_changes")]
    rz = [(bb, t) for bb, t in sr.calls() if callee_decl(t) == MUT + "::resize_related"]
    gc = [bb for bb, t in sr.calls() if callee_decl(t) == REL + "::graphs_count"]
    if not (rb and cc and rz):
        ctx.bad("send_replication/anchors", site_of(sr), "rebuild_graphs / resize_related / collect_changes not all found", kind="anchor-missing")
        return
    ctx.check(all(sr.dominates(rb[0], c) for c in cc) and not [x for x in required_outcomes(F, sr, rb[0])], "send_replication/rebuild-before-collect", site_of(sr, rb[0]),
              "the relationship graphs are not rebuilt (unconditionally) before changes are collected")
    for bb, t in rz:
        ctx.check(all(sr.dominates(rb[0], g) for g in gc) and any(("call", g) in dep_closure(sr, t["args"][1]) for g in gc), "send_replication/resize-to-fresh-count", site_of(sr, bb),
                  "related buffers are not resized to graphs_count() of the rebuilt graphs")
        loops = sr.loops_containing(bb)
        g = [x for x in required_outcomes(F, sr, bb) if not is_next_switch(sr, x[1])]
        ctx.check(bool(loops) and not g, "send_replication/resize-every-client", site_of(sr, bb), "not every client's buffers are resized")
        if loops:
            h, bs = min(loops, key=lambda x: len(x[1]))
            ctx.check(all(c not in bs and sr.dominates(h, c) for c in cc), "send_replication/resize-before-collect", site_of(sr, bb), "changes are collected before the buffers were resized")
        # clear happens before resize in the same iteration is irrelevant; but clear must not follow resize and empty `related` itself (it drains inner vecs only)
    cl = ctx.fn("mutations::Mutations::clear")
    touched_outer = []
    for b in F.with_closures(cl):
        btr = tracer(b)
        for bb, t in b.calls():
            m = callee_decl(t).rsplit("::", 1)[-1]
            if m in ("clear", "truncate", "drain", "pop", "remove") and t["args"] and "Vec" in callee_decl(t):
                g = [a for a in t["callee"]["args"] if not a.startswith("'")]
                if g and g[0].startswith("alloc::vec::Vec<"):
                    for o in btr.operand(t["args"][0]):
                        if any(e[0] == "f" and e[2] == "related" for e in o.path) and not any(e[0] in ("item", "idx") for e in o.path):
                            touched_outer.append(m)
    ctx.check(not touched_outer, "Mutations::clear/keeps-group-slots", site_of(cl), "clear() shrinks the per-graph slots (%s): add_entity would index out of bounds" % touched_outer)


def r3_group_choice(ctx):
    F = ctx.F
    cc = ctx.fn("server::collect_changes")
    tr = tracer(cc)
    adds = [(bb, t) for bb, t in cc.calls() if callee_decl(t) == MUT + "::add_entity"]
    ctx.check(len(adds) == 1, "collect_changes/add_entity", site_of(cc), "%d add_entity sites" % len(adds))
    ent_loops = set()
    for bb, t in cc.calls():
        if callee_decl(t).endswith("Iterator::next") and any(k == "call" and callee_decl(cc.blocks[d].term).endswith("Archetype::entities") for (k, d) in dep_closure(cc, t["args"][0])):
            ent_loops.add((cc.path, bb))
    for bb, t in adds:
        gi = tr.operand(t["args"][2])
        ok = bool(gi) and all(o.kind == "call" and callee_decl(cc.blocks[o.data].term) == REL + "::graph_index" for o in gi)
        ctx.check(ok, "collect_changes/group-from-graph_index", site_of(cc, bb), "the group of a mutated entity is not RelatedEntities::graph_index(..)")
        if ok:
            gcall = cc.blocks[next(iter(gi)).data].term
            same = next_sources(F, cc, gcall["args"][1]) & next_sources(F, cc, t["args"][1]) & ent_loops
            ctx.check(bool(same), "collect_changes/group-of-same-entity", site_of(cc, bb), "graph_index is asked about a different entity than the one added")
            ent = next_sources(F, cc, t["args"][3])
            ctx.check(bool(ent & next_sources(F, cc, t["args"][1]) & ent_loops), "collect_changes/range-of-same-entity", site_of(cc, bb), "the serialised entity range belongs to another entity")
    gi = ctx.fn("related_entities::RelatedEntities::graph_index")
    gtr = tracer(gi)
    gets = [t for _, t in gi.calls() if callee_decl(t).endswith("::get")]
    ok = len(gets) == 1 and any(e[2] == "entity_graphs" for o in gtr.operand(gets[0]["args"][0]) for e in o.path if e[0] == "f") and all(o.kind == "param" and o.data == 2 for o in gtr.operand(gets[0]["args"][1]))
    ctx.check(ok, "graph_index/looks-up-entity", site_of(gi), "graph_index does not look its argument up in entity_graphs")


def r4_wiring(ctx):
    F = ctx.F
    S = schedule(F)
    reg = [o for o in S.observers if o["where"].endswith("SyncRelatedAppExt>::sync_related_entities")]
    want = {("OnInsert", "C"): "add_relation", ("OnReplace", "C"): "remove_relation", ("OnInsert", "Replicated"): "add_relation", ("OnReplace", "Replicated"): "remove_relation"}
    seen = {}
    for o in reg:
        ev = o["event"].rsplit("::", 1)[-1]
        bd = o["bundle"].rsplit("::", 1)[-1]
        h = F.fns.get(o["handler"])
        called = set()
        guarded = True
        if h is not None:
            for bb, t in h.calls():
                d = callee_decl(t)
                if d.startswith(REL + "::") and d.rsplit("::", 1)[-1] in ("add_relation", "remove_relation"):
                    called.add(d.rsplit("::", 1)[-1])
                    g = [(c, o2) for (_, c, o2) in required_outcomes(F, h, bb) if c["kind"] == "boolcall" and c["name"].endswith("RepliconServer::is_running")]
                    guarded = guarded and any(o2 == {True} for c, o2 in g)
                    # relation between the triggering entity and its relationship target
                    htr = tracer(h)
                    src = htr.operand(t["args"][1])
                    okt = all(x.kind == "call" and (callee_decl(h.blocks[x.data].term).endswith("::target") and "Trigger" in callee_decl(h.blocks[x.data].term)) for x in src) and src
                    ctx.check(bool(okt), "%s/relates-trigger-target" % short(o["handler"]), site_of(h, bb), "the relation is not recorded for the triggering entity")
        seen[(ev, bd)] = (called, guarded, o["handler"])
    for k, meth in want.items():
        got = seen.get(k)
        ctx.check(got is not None and got[0] == {meth}, "sync_related_entities/%s<%s>-calls-%s" % (k[0], k[1], meth), "",
                  "observer for %s<%s>: %s" % (k[0], k[1], got and (sorted(got[0]), short(got[2]))))
        if got:
            ctx.check(got[1], "sync_related_entities/%s<%s>-only-while-running" % k, "", "graph is maintained while the server is not running")
    rr = S.system("server::related_entities::read_relations")
    ok = len(rr) == 1 and any(c.endswith("server_just_started") for c in rr[0]["run_if"]) and any(b.endswith("send_replication") for b in rr[0]["before"]) and "server::ServerSet::Send" in rr[0]["sets"]
    ctx.check(ok, "sync_related_entities/startup-scan", "", "read_relations registration: %s" % [(e["run_if"], e["before"], e["sets"]) for e in rr])
    # every graph mutation marks the graphs dirty
    methods = {p: b for p, b in F.fns.items() if b.j.get("impl_self_adt") == REL and b.kind == "AssocFn" and "::tests::" not in p}
    GRAPH_MUT = ("add_edge", "remove_edge", "remove_node", "add_node", "update_edge")

    def mutates_graph(b, seen=None):
        seen = seen or set()
        if b.path in seen:
            return []
        seen.add(b.path)
        out = []
        for bb, t in b.calls():
            d = callee_decl(t)
            if d.rsplit("::", 1)[-1] in GRAPH_MUT and "petgraph" in d:
                out.append(bb)
            elif d in methods and d != b.path:
                if mutates_graph(methods[d], seen):
                    out.append(bb)
        return out

    entry = [b for p, b in methods.items() if b.path.rsplit("::", 1)[-1] in ("add_relation", "remove_relation")]
    ctx.check(len(entry) == 2, "RelatedEntities/entry-points", REL, "add_relation/remove_relation not found")
    for b in entry:
        muts = mutates_graph(b)
        sets = [bb for bb, i, s in b.statements() if s["s"] == "assign" and s["place"]["p"] and isinstance(s["place"]["p"][-1], dict)
                and s["place"]["p"][-1].get("name") == "rebuild_needed" and s["rvalue"]["rv"] == "use" and s["rvalue"]["op"].get("val") == 1]
        ok = bool(muts) and bool(sets) and all(any(b.postdominates(s_, m) for s_ in sets) for m in muts)
        ctx.check(ok, "%s/marks-dirty" % short(b.path), site_of(b), "the graph is changed without setting rebuild_needed on every path: the next tick would use stale groups")
    # callers of private mutators are only those entry points
    for p, b in methods.items():
        n = p.rsplit("::", 1)[-1]
        if n in ("add_relation", "remove_relation", "clear", "rebuild_graphs"):
            continue
        if mutates_graph(b):
            from callgraph import callgraph
            callers = {cb.path for (cb, cbb, k) in callgraph(F).callers_of(p) if "::tests::" not in cb.path}
            ctx.check(callers <= {e.path for e in entry}, "%s/called-only-from-dirty-marking-entry-points" % short(p), site_of(b), "graph mutator also called from %s" % sorted(callers))
    rg = ctx.fn("related_entities::RelatedEntities::rebuild_graphs")
    clears = [bb for bb, i, s in rg.statements() if s["s"] == "assign" and s["place"]["p"] and isinstance(s["place"]["p"][-1], dict)
              and s["place"]["p"][-1].get("name") == "rebuild_needed" and s["rvalue"]["rv"] == "use" and s["rvalue"]["op"].get("val") == 0]
    runs = [bb for bb, t in rg.calls() if callee_decl(t).endswith("TarjanScc::<N>::run") or callee_decl(t).endswith("::run")]
    ctx.check(bool(clears) and bool(runs) and all(rg.dominates(c, r) or rg.dominates(r, c) for c in clears for r in runs), "rebuild_graphs/clears-flag-and-recomputes", site_of(rg),
              "rebuild does not both clear the dirty flag and recompute the components")
    g = [(c, o) for r in runs for (_, c, o) in required_outcomes(F, rg, r)]
    okg = all(any(e[2] == "rebuild_needed" for x in deep_origins(rg, rg.blocks[s_].term["discr"]) for e in x.path if e[0] == "f") for r in runs for (s_, c, o) in required_outcomes(F, rg, r))
    ctx.check(okg, "rebuild_graphs/recompute-iff-dirty", site_of(rg), "recomputation is guarded by something other than the dirty flag")
    wr = set()
    for b in F.with_closures(rg):
        from flow import resolve_through_closure
        for bb, t in b.calls():
            if callee_decl(t).endswith("::insert") or callee_decl(t).endswith("::clear"):
                origins = tracer(b).operand(t["args"][0])
                if b.kind == "Closure":
                    origins = {o for (_, o) in resolve_through_closure(F, b, origins)}
                for o in origins:
                    for e in o.path:
                        if e[0] == "f" and e[3] == REL:
                            wr.add(e[2])
    ctx.check("entity_graphs" in wr, "rebuild_graphs/rewrites-entity_graphs", site_of(rg), "entity_graphs is not rewritten by rebuild")


def r5_edge_symmetry(ctx):
    """Removing a relation undoes every edge adding it may have created. Two observers add an edge for the same relation (insert of the
    relationship, insert of Replicated - both fire when they arrive in one bundle) and adding is not idempotent, so parallel edges
    exist; only one OnReplace fires when the relationship is removed or re-targeted. A stale edge keeps unrelated entities in one
    group: their mutations are packed as one indivisible chunk (exceeding the size bound) - or, for the opposite error, related
    entities are split."""
    F = ctx.F
    ar = ctx.fn("related_entities::RelatedEntities::add_relation")
    rr = ctx.fn("related_entities::RelatedEntities::remove_relation")
    adds = [(bb, t) for bb, t in ar.calls() if callee_decl(t).rsplit("::", 1)[-1] in ("add_edge", "update_edge")]
    if not ctx.check(bool(adds), "add_relation/adds-edge", site_of(ar), "add_relation does not add an edge"):
        return
    QUERY = ("find_edge", "contains_edge", "edges_connecting", "find_edge_undirected")
    idempotent = all(callee_decl(t).endswith("update_edge") for _, t in adds)
    for bb, t in adds:
        for (sb, c, o) in required_outcomes(F, ar, bb):
            ops = list(c.get("args", [])) + list(c.get("operands", [])) + ([{"k": "copy", "place": c["place"]}] if "place" in c else [])
            for op in ops:
                if any(k == "call" and callee_decl(ar.blocks[d].term).rsplit("::", 1)[-1] in QUERY for (k, d) in dep_closure(ar, op)):
                    idempotent = True
    rems = [(bb, t) for bb, t in rr.calls() if callee_decl(t).rsplit("::", 1)[-1] == "remove_edge"]
    retain = [(bb, t) for bb, t in rr.calls() if callee_decl(t).rsplit("::", 1)[-1] in ("retain_edges",)]
    all_removed = bool(retain)
    if rems and not all_removed:
        in_loop = all(rr.loops_containing(bb) for bb, _ in rems)
        rtr = tracer(rr)

        def fields_of(op):
            return {(e[3], e[2]) for o in rtr.operand(op) for e in o.path if e[0] == "f"} | \
                   {(e[3], e[2]) for (k, d) in dep_closure(rr, op) if k == "call" for a_ in rr.blocks[d].term.get("args", [])[:1] for o in rtr.operand(a_) for e in o.path if e[0] == "f"}

        def from_connecting(op, depth=0):
            deps = dep_closure(rr, op)
            if any(k == "call" and callee_decl(rr.blocks[d].term).rsplit("::", 1)[-1] == "edges_connecting" for (k, d) in deps):
                return True
            if depth:
                return False
            # through a scratch buffer field filled in this function: buffer.extend(<edges_connecting ...>) ... buffer.drain(..)
            flds = fields_of(op)
            for bb2, t2 in rr.calls():
                if callee_decl(t2).rsplit("::", 1)[-1] in ("extend", "push", "extend_from_slice") and len(t2["args"]) > 1:
                    recv = {(e[3], e[2]) for o in rtr.operand(t2["args"][0]) for e in o.path if e[0] == "f"}
                    if recv & flds and from_connecting(t2["args"][1], 1):
                        return True
            return False
        from_all = all(from_connecting(t["args"][1]) for _, t in rems)
        # a single pick (find/nth/..) is fine only when it is re-evaluated by the loop (`while let Some(e) = ..find(..)`)
        single = False
        for rb, t in rems:
            body_blocks = set()
            for h, bs in rr.loops_containing(rb):
                body_blocks |= bs
            for (k, d) in dep_closure(rr, t["args"][1]):
                if k == "call" and callee_decl(rr.blocks[d].term).rsplit("::", 1)[-1] in ("find", "find_map", "nth", "last", "position", "find_edge") and d not in body_blocks:
                    single = True
        all_removed = in_loop and from_all and not single
    ctx.check(bool(rems or retain), "remove_relation/removes-edge", site_of(rr), "remove_relation does not remove an edge")
    ctx.check(idempotent or all_removed, "remove_relation/undoes-every-add", site_of(rr, rems[0][0]) if rems else site_of(rr),
              "add_relation adds an edge unconditionally (two observers add the same relation when the relationship and Replicated arrive in one bundle), but remove_relation "
              "removes at most one matching edge: a stale edge keeps the entities in one group after the relationship is gone",
              "adding is idempotent" if idempotent else "every matching edge is removed")
    # the type filter: only edges of this relationship type are touched
    typed = False
    for cb in F.closures_of(rr.path):
        if any(callee_decl(t).rsplit("::", 1)[-1] in ("eq", "ne") for _, t in cb.calls()) and any(callee_decl(t).endswith("weight") for _, t in cb.calls()):
            typed = True
    ctx.check(typed, "remove_relation/only-edges-of-this-type", site_of(rr), "edges of other relationship types between the same entities are removed as well (or no type filter found)")


def r6_tested_size_is_sent_size(ctx):
    """The size that is tested against the client's maximum is the size of the message that is then sent: every size term of the
    recorded message size (`body + header`: the tick fields, the optional count, the mutate index) also enters the `can_pack` tests.
    A term left out of the test lets messages exceed the maximum by exactly that term although every chunk fits."""
    F = ctx.F
    ms = ctx.fn("replication_messages::mutations::Mutations::send")
    packs = [(bb, t) for bb, t in ms.calls() if callee_decl(t).endswith("mutations::can_pack")]
    if not ctx.check(len(packs) >= 1, "send/can_pack-tests", site_of(ms), "no can_pack test found"):
        return
    tr = tracer(ms)
    recorded = []
    for bb, i, st in ms.statements():
        if st["s"] == "assign" and st["rvalue"]["rv"] == "agg" and st["rvalue"]["kind"] == "tuple" and len(st["rvalue"]["ops"]) == 3:
            # (mutate_index, size, chunks_range) pushed into self.messages
            used = False
            for b2, t2 in ms.calls():
                if callee_decl(t2).endswith("Vec::<T, A>::push") and any(o.kind == "stmt" and o.data == (bb, i) for o in tr.operand(t2["args"][1])):
                    used = True
            if used:
                recorded.append((bb, st["rvalue"]["ops"][1]))
    if not ctx.check(len(recorded) >= 2, "send/recorded-sizes", site_of(ms), "found %d recorded message sizes (expected the split and the final one)" % len(recorded)):
        return

    def size_terms(op):
        terms = set()
        for o in deep_origins(ms, op):
            if o.kind == "call":
                d = callee_decl(ms.blocks[o.data].term)
                m = d.rsplit("::", 1)[-1]
                if m in ("serialized_size", "len", "size_with_components_size", "components_size"):
                    targ = ",".join(a_ for a_ in ms.blocks[o.data].term["callee"].get("args", []) if not a_.startswith("'"))
                    terms.add((m, targ))
            elif o.kind == "const" and o.data and o.data[0] in ("uneval", "val"):
                if o.data[0] == "uneval":
                    terms.add(("const", str(o.data[1]).rsplit("::", 1)[-1]))
        return terms
    rec_terms = set()
    for bb, op in recorded:
        rec_terms |= size_terms(op)
    header_terms = {t_ for t_ in rec_terms if t_[0] in ("serialized_size", "len", "const")}
    ctx.check(len(header_terms) >= 2, "send/header-terms", site_of(ms), "could not recover the header terms of the recorded size: %s" % sorted(rec_terms))
    for bb, t in packs:
        base = size_terms(t["args"][0]) | size_terms(t["args"][1])
        missing = header_terms - base
        ctx.check(not missing, ctx.nth("send/can_pack-tests-the-sent-size"), site_of(ms, bb),
                  "the size tested against the maximum leaves out %s, which is part of the message that is sent: messages can exceed the client's maximum by that much although every "
                  "entity (or group) fits" % sorted(missing), "tests %s" % sorted(base & header_terms))
    # the limit is the client's maximum
    for bb, t in packs:
        lim = tr.operand(t["args"][2])
        ctx.check(bool(lim) and all(o.kind == "param" for o in lim), ctx.nth("send/can_pack-limit-is-max_size"), site_of(ms, bb), "the packing limit is not the max_size parameter")


def r20_unconditional_mutators(ctx):
    """Mutators this property relies on always perform their effect (shared table in rules/mutators.py)."""
    import rules.mutators as mutators
    mutators.run_for(ctx, "C10")


def r7_ack_list_starts_empty(ctx):
    """The entity list registered for a mutate message starts empty: a recycled list that still names entities of an expired or acknowledged
    message would let the acknowledgement of this message also confirm entities whose data travelled in another (possibly lost) message of
    the split - the entity is then confirmed for a tick it received only partly (C11.R6 = C09.R1c restricted to the entity-list pool)."""
    import rules.C11 as C11
    C11.r6_ack_list_pool(ctx)


RULES = [
    ("C10.R1", "message boundaries only between chunks; chunks are whole groups / single entities; one send per message; ack list per chunk", r1_boundaries, 12, ["default", "all-features", "server-only"]),
    ("C10.R2", "graphs rebuilt and every client's group buffers resized before changes are collected", r2_freshness, 5, ["default", "all-features", "server-only"]),
    ("C10.R3", "a mutated entity's group is graph_index of that entity", r3_group_choice, 4, ["default", "all-features", "server-only"]),
    ("C10.R4", "graph maintenance: observer wiring, dirty marking, rebuild", r4_wiring, 14, ["default", "all-features", "server-only"]),
    ("C10.R5", "removing a relation undoes every edge adding it created (parallel edges from the two add observers)", r5_edge_symmetry, 4, ["default", "all-features", "server-only"]),
    ("C10.R6", "the size tested against the client's maximum is the size of the message that is sent (every header term enters the packing test)", r6_tested_size_is_sent_size, 6, ["default", "all-features", "server-only"]),
    ("C10.R7", "the entity list registered for a message starts empty: recycled lists are emptied when returned or taken (same rule as C11.R6)", r7_ack_list_starts_empty, 1, ["default", "all-features", "server-only"]),
    ("C10.R20", "mutators this property relies on always perform their effect (rules/mutators.py): no early return, no guard outside the allowed set", r20_unconditional_mutators, 2, ["default", "all-features"]),
]
THOROUGH_CONFIGS = ["default", "all-features", "server-only"]
