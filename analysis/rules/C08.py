"""C08 - Hidden entities' data never reaches a client."""
from engine import site_of
from facts import callee_decl, callee_name
from flow import tracer, short, required_outcomes, dep_closure, is_next_switch, switch_cond, edge_outcome, resolve_through_closure, deep_origins, origin_keys, next_sources

EXPLANATION = (
    "R1: every call that puts an entity's data (components, ids, removals, despawns) into a per-client message buffer outside the "
    "buffer types' own impls is dominated by a visibility test of the *same client item* on the not-hidden edge "
    "(entity_visibility() != Hidden in any normal form, is_visible()/is_none_or(is_visible) true, or no visibility component at "
    "all); likewise every baseline bump. R2: the tested entity is the entity whose data is written (state()/is_visible() argument "
    "and the serialised entity/component come from the same iteration item) and start_entity_changes runs for every client before "
    "the component loop. R3: ClientVisibility's state is private and committed once per client per tick. R4 (decision tables): "
    "is_visible is false exactly for Hidden; state() classifies list membership as the policy demands (both evaluated in every abstract state). "
    "R5 (typestate / finite abstract interpretation of ClientVisibility's MIR, absint.py): per entity the state is (list entry, in `added`, in `removed`) - "
    "a finite domain; the transfer relation of set_visibility / update / remove_despawned / drain_lost / state / is_visible is computed from their MIR "
    "and the reachable states under every sequence of set_visibility(true|false) / tick / despawn are enumerated for both policies with two ghost bits "
    "(most recent setting, client holds the entity). Invariants: queries truthful, every loss reported (despawn record), no spurious loss, a gain "
    "delivers the whole entity, state() truthful at the tick, a despawn is reported to a holder, a despawn leaves no state behind. The call protocol the "
    "exploration assumes (is_visible -> remove_despawned for every despawned entity, drain_lost afterwards, collect_despawns before collect_changes before "
    "send_messages/update) is checked on the callers. R6: first-sight completeness (rules/first_sight.py).")
NOT_DECIDED = ("interaction of two different entities inside one ClientVisibility (the abstraction is per entity; the methods touch only the keyed entry, which the "
               "interpreter verifies by refusing map operations on another key); bytes actually put on the wire")
TRUSTED_BASE = ["bevy query iteration yields each client once per loop", "hash-map get/insert/remove contracts"]

UPD = "bevy_replicon::server::replication_messages::updates::Updates"
MUT = "bevy_replicon::server::replication_messages::mutations::Mutations"
TICKS = "bevy_replicon::shared::replication::client_ticks::ClientTicks"
VIS = "bevy_replicon::server::client_visibility::ClientVisibility"
VISENUM = "bevy_replicon::server::client_visibility::Visibility"

DATA_WRITERS = {
    UPD + "::add_inserted_component", UPD + "::add_changed_entity", UPD + "::take_added_entity", UPD + "::add_removals", UPD + "::add_despawn",
    MUT + "::add_entity", MUT + "::add_component", TICKS + "::set_mutation_tick",
}


def _is_test(p):
    return "::tests::" in p


def _client_items(body, op):
    """Blocks of the Iterator::next calls (client-query iterations) an operand derives from."""
    tr = tracer(body, follow_next=False)
    out = set()
    for o in tr.operand(op):
        if o.kind == "call" and callee_decl(body.blocks[o.data].term).endswith("Iterator::next"):
            out.add(o.data)
    return out


def _promoted_variant(body, op):
    tr = tracer(body)
    for o in tr.operand(op):
        if o.kind == "const" and o.data[0] == "promoted":
            pb = body.promoted[o.data[1]]
            for _, _, s in pb.statements():
                if s["s"] == "assign" and s["rvalue"]["rv"] == "agg" and s["rvalue"].get("adt") == VISENUM:
                    return s["rvalue"]["variant"]
        if o.kind == "stmt":
            rv = body.blocks[o.data[0]].stmts[o.data[1]]["rvalue"]
            if rv["rv"] == "agg" and rv.get("adt") == VISENUM:
                return rv["variant"]
    return None


def visibility_guards(F, body, bb):
    """-> list of (kind, client_item_blocks, entity_operand or None) for the not-hidden guards that dominate bb."""
    res = []
    tr = tracer(body, follow_next=False)
    for (sbb, c, o) in required_outcomes(F, body, bb):
        if is_next_switch(body, c):
            continue
        if c["kind"] == "cmp" and (c.get("callee", "").startswith("<" + VISENUM + " as core::cmp::PartialEq>") or VISENUM in c.get("targs", [])[:1]):
            for (x, y) in ((c["a"], c["b"]), (c["b"], c["a"])):
                v = _promoted_variant(body, y)
                if v != "Hidden":
                    continue
                not_hidden = (c["rel"] == "==" and o == {False}) or (c["rel"] == "!=" and o == {True})
                if not not_hidden:
                    continue
                for xo in tr.operand(x):
                    if xo.kind == "call" and callee_decl(body.blocks[xo.data].term) == UPD + "::entity_visibility":
                        res.append(("entity_visibility != Hidden", _client_items(body, body.blocks[xo.data].term["args"][0]), None))
                    if xo.kind == "call" and callee_decl(body.blocks[xo.data].term) == VIS + "::state":
                        st = body.blocks[xo.data].term
                        res.append(("state() != Hidden", _client_items(body, st["args"][0]), st["args"][1]))
            # `state == Visible` / `state == Gained` also imply "not hidden" (a stricter filter; whether it is *complete* is C03.R6)
            for (x, y) in ((c["a"], c["b"]), (c["b"], c["a"])):
                v = _promoted_variant(body, y)
                if v in ("Visible", "Gained") and ((c["rel"] == "==" and o == {True}) or (c["rel"] == "!=" and o == {False})):
                    for xo in tr.operand(x):
                        if xo.kind == "call" and callee_decl(body.blocks[xo.data].term) in (UPD + "::entity_visibility", VIS + "::state"):
                            st = body.blocks[xo.data].term
                            res.append(("visibility == %s" % v, _client_items(body, st["args"][0]), st["args"][1] if len(st["args"]) > 1 else None))
        elif c["kind"] == "boolcall" and c["name"] == VIS + "::is_visible" and o == {True}:
            res.append(("is_visible", _client_items(body, c["args"][0]), c["args"][1]))
        elif c["kind"] == "boolcall" and c["name"].endswith("Option::<T>::is_none_or") and o == {True}:
            # closure must call is_visible
            ctr = tracer(body)
            for co in ctr.operand(c["args"][1]):
                if co.kind == "stmt":
                    rv = body.blocks[co.data[0]].stmts[co.data[1]]["rvalue"]
                    if rv["rv"] == "agg" and rv["kind"] == "closure":
                        cb = F.fns.get(rv["closure"])
                        if cb and any(callee_decl(t) in (VIS + "::is_visible", VIS + "::state") for _, t in cb.calls()):
                            ent = None
                            exact = False
                            for _, t in cb.calls():
                                if callee_decl(t) == VIS + "::is_visible":
                                    ent = ("closure", cb, t["args"][1])
                                    # the closure returns is_visible's result unchanged
                                    exact = all(o2.kind == "call" and callee_decl(cb.blocks[o2.data].term) == VIS + "::is_visible" for o2 in tracer(cb).local(0))
                                elif callee_decl(t) == VIS + "::state":
                                    ent = ("closure", cb, t["args"][1])
                            res.append(("is_none_or(is_visible)" if exact else "is_none_or(<visibility test>)", _client_items(body, c["args"][0]), ent))
        elif c["kind"] == "variant" and o == {"None"}:
            items = set()
            for po in tr.place(c["place"]):
                if po.kind == "call" and callee_decl(body.blocks[po.data].term).endswith("Iterator::next") and po.path and "ClientVisibility" in str(body.locals[c["place"]["l"]]["ty"]):
                    items.add(po.data)
            if items:
                res.append(("no visibility component", items, None))
        elif c["kind"] == "variant" and o == {"Some"}:
            # inside `for entity in visibility.drain_lost()`: handled by the caller through the loop source
            pass
    return res


def r1_guarded_writes(ctx):
    F = ctx.F
    n = 0
    for body in F.real_fns():
        if _is_test(body.path) or body.crate != "bevy_replicon":
            continue
        if body.j.get("impl_self_adt") in (UPD, MUT, TICKS):
            continue
        for bb, t in body.calls():
            d = callee_decl(t)
            if d not in DATA_WRITERS:
                continue
            n += 1
            items = _client_items(body, t["args"][0])
            key = ctx.nth("%s/%s" % (short(body.path), d.rsplit("::", 1)[-1]))
            if not items:
                ctx.bad(key, site_of(body, bb), "the written buffer does not come from a per-client query iteration (cannot relate it to a client's visibility)")
                continue
            guards = visibility_guards(F, body, bb)
            ok = [g for g in guards if g[1] & items]
            # despawns caused by lost visibility: the entity comes from this client's drain_lost()
            if not ok and d.endswith("add_despawn"):
                deps = dep_closure(body, t["args"][1])
                for (k, x) in deps:
                    if k == "call" and callee_decl(body.blocks[x].term) == VIS + "::drain_lost" and _client_items(body, body.blocks[x].term["args"][0]) & items:
                        ok = [("entity from this client's drain_lost()", items, None)]
            ctx.check(bool(ok), key, site_of(body, bb),
                      "entity data is put into a client's message buffer without a dominating visibility test for that client "
                      "(guards for other items: %s)" % [(g[0], sorted(g[1])) for g in guards],
                      "guarded by %s" % ok[0][0] if ok else None)
    if n < 9:
        ctx.bad("sites", "", "only %d data-writing call sites found (expected the 9+ in collect_despawns/removals/changes)" % n, kind="anchor-missing")


def _entity_iteration(F, body, op):
    """The iterations over `Archetype::entities()` / buffers that an entity operand comes from: (path, next_bb)."""
    from flow import next_sources
    return next_sources(F, body, op)


def r2_right_entity(ctx):
    F = ctx.F
    from flow import next_sources, deps_with_env
    cc = ctx.fn("server::collect_changes")
    starts = [(bb, t) for bb, t in cc.calls() if callee_decl(t) == UPD + "::start_entity_changes"]
    ctx.check(len(starts) == 1, "collect_changes/start_entity_changes", site_of(cc), "%d call sites" % len(starts))
    # the loop over archetype entities
    ent_loops = set()
    for bb, t in cc.calls():
        if callee_decl(t).endswith("Iterator::next"):
            src = dep_closure(cc, t["args"][0])
            if any(k == "call" and callee_decl(cc.blocks[d].term).endswith("Archetype::entities") for (k, d) in src):
                ent_loops.add((cc.path, bb))
    ctx.check(len(ent_loops) == 1, "collect_changes/entity-loop", site_of(cc), "%d loops over archetype.entities()" % len(ent_loops))
    for bb, t in starts:
        deps = dep_closure(cc, t["args"][1])
        state_ent = set()
        items_vis = set()
        for (k, d) in deps:
            if k == "stmt":
                rv = cc.blocks[d[0]].stmts[d[1]]["rvalue"]
                if rv["rv"] == "agg" and rv["kind"] == "closure":
                    cb = F.fns.get(rv["closure"])
                    if cb:
                        for _, ct in cb.calls():
                            if callee_decl(ct) == VIS + "::state":
                                state_ent |= next_sources(F, cb, ct["args"][1])
            if k == "call" and callee_decl(cc.blocks[d].term).endswith("Option::<T>::map"):
                items_vis |= _client_items(cc, cc.blocks[d].term["args"][0])
        same_client = bool(items_vis & _client_items(cc, t["args"][0]))
        ctx.check(same_client, "collect_changes/state-of-same-client", site_of(cc, bb), "the visibility state stored into a client's buffer is computed from another client's visibility")
        ctx.check(bool(state_ent & ent_loops), "collect_changes/state-of-iterated-entity", site_of(cc, bb),
                  "ClientVisibility::state is not asked about the entity of the current archetype iteration (sources: %s)" % sorted(state_ent))
        dflt = None
        for (k, d) in deps:
            if k == "call" and callee_decl(cc.blocks[d].term).endswith("Option::<T>::unwrap_or"):
                dflt = _promoted_variant(cc, cc.blocks[d].term["args"][1])
        ctx.check(dflt == "Visible", "collect_changes/default-visibility", site_of(cc, bb), "default state without a visibility component is %s" % dflt)
        g = [x for x in required_outcomes(F, cc, bb) if not is_next_switch(cc, x[1])]
        ctx.check(not g, "collect_changes/start-for-every-client", site_of(cc, bb), "start_entity_changes is conditional: %s" % [(c["kind"], o) for (_, c, o) in g])
        # the client loop holding start_entity_changes finishes before any component data of the entity is read
        loops = sorted(cc.loops_containing(bb), key=lambda x: len(x[1]))
        gets = [b2 for b2, t2 in cc.calls() if callee_decl(t2).endswith("::get_component_unchecked")]
        if loops and gets:
            h, bs = loops[0]
            ok = all(b2 not in bs and cc.dominates(h, b2) for b2 in gets)
            ctx.check(ok, "collect_changes/start-before-components", site_of(cc, bb), "component data is read before every client's visibility was recorded")
        else:
            ctx.bad("collect_changes/start-before-components", site_of(cc, bb), "loop structure not recognised", kind="anchor-missing")
    # the data written belongs to the same entity iteration
    for name in ("write_entity_cached", "write_component_cached"):
        for bb, t in cc.calls():
            if callee_decl(t).endswith("server::" + name):
                arg = t["args"][2] if name == "write_entity_cached" else t["args"][-1]
                src = next_sources(F, cc, arg)
                ctx.check(bool(src & ent_loops), ctx.nth("collect_changes/%s-of-tested-entity" % name), site_of(cc, bb),
                          "the serialised entity/component does not come from the iteration whose visibility was tested")
    # removals / despawns: tested entity == written entity
    for fn_name, writer in (("server::collect_removals", "add_removals"), ("server::collect_despawns", "add_despawn")):
        b = ctx.fn(fn_name)
        for bb, t in b.calls():
            if callee_decl(t) != UPD + "::" + writer:
                continue
            written = next_sources(F, b, t["args"][1])
            for g in visibility_guards(F, b, bb):
                if g[2] is None:
                    continue
                if isinstance(g[2], tuple) and g[2][0] == "closure":
                    tested = next_sources(F, g[2][1], g[2][2])
                else:
                    tested = next_sources(F, b, g[2])
                # ignore the per-client iteration itself
                clients = {(b.path, x) for x in g[1]}
                ctx.check(bool((tested & written) - clients), "%s/%s-tests-written-entity" % (short(fn_name), writer), site_of(b, bb),
                          "visibility is tested for a different entity than the one whose %s is written" % writer)


def r3_encapsulation(ctx):
    F = ctx.F
    for f in F.adt_fields(VIS):
        ctx.check(f["vis"].startswith("restricted"), "ClientVisibility.%s/private" % f["name"], VIS, "field is not private")
    a = ctx.adt(VISENUM)
    ctx.check(a["vis"] != "pub", "Visibility/crate-private", VISENUM, "the per-tick state enum is public")
    sm = ctx.fn("server::send_messages")
    ups = [(bb, t) for bb, t in sm.calls() if callee_decl(t) == VIS + "::update"]
    ctx.check(len(ups) == 1, "send_messages/commit-once", site_of(sm), "%d ClientVisibility::update calls" % len(ups))
    for bb, t in ups:
        ctx.check(bool(sm.loops_containing(bb)), "send_messages/commit-per-client", site_of(sm, bb), "update() is not inside the per-client loop")
        g = [x for x in required_outcomes(F, sm, bb) if not is_next_switch(sm, x[1])]
        ok = all(c["kind"] == "variant" and o == {"Some"} for (_, c, o) in g) and len(g) <= 1
        ctx.check(ok, "send_messages/commit-unconditional", site_of(sm, bb), "the end-of-tick commit is skipped on some paths: %s" % [(c["kind"], sorted(map(str, o))) for (_, c, o) in g])
        # after both sends of this client
        sends = [b2 for b2, t2 in sm.calls() if callee_decl(t2) in (UPD + "::send", MUT + "::send")]
        ctx.check(all(not sm.reachable_avoiding(b2, [(a_, h) for h, bs in sm.loops_containing(bb) for a_ in bs for (tt, _) in sm.succ[a_] if tt == h], start=bb) for b2 in sends),
                  "send_messages/commit-after-sends", site_of(sm, bb), "the commit happens before a send of the same iteration")
    # update() is called nowhere else
    others = [b.path for b in F.real_fns() if not _is_test(b.path) and b.path != sm.path for _, t in b.calls() if callee_decl(t) == VIS + "::update"]
    ctx.check(not others, "ClientVisibility::update/single-caller", "", "also called from %s" % others)


def decision_paths(F, body, max_paths=64):
    """Enumerates entry->return paths of a small pure function as (tuple of (adt, variant) decisions, returned variant)."""
    from flow import switch_cond, edge_outcome
    results = []

    def ret_variant(path_blocks):
        v = None
        for bb in path_blocks:
            for s in body.blocks[bb].stmts:
                if s["s"] == "assign" and s["place"] == {"l": 0, "p": []}:
                    rv = s["rvalue"]
                    if rv["rv"] == "agg" and rv["kind"] == "adt":
                        v = rv["variant"]
                    elif rv["rv"] == "use" and rv["op"].get("k") == "const" and "val" in rv["op"]:
                        v = rv["op"]["val"]
        return v

    def walk(bb, decisions, blocks, depth):
        if len(results) >= max_paths or depth > 60:
            return
        blocks = blocks + [bb]
        t = body.blocks[bb].term
        if t["t"] == "return":
            results.append((tuple(decisions), ret_variant(blocks)))
            return
        succ = body.succ[bb]
        if t["t"] == "switch":
            c = switch_cond(body, bb)
            for (tb, lab) in succ:
                o = edge_outcome(F, body, bb, lab, c)
                if c["kind"] == "variant":
                    adt = (c.get("adt") or "").rsplit("::", 1)[-1]
                    outs = o if isinstance(o, tuple) else (o,)
                    for oo in outs:
                        walk(tb, decisions + [(adt, oo)], blocks, depth + 1)
                else:
                    walk(tb, decisions + [(c["kind"], o)], blocks, depth + 1)
        else:
            for (tb, lab) in succ:
                walk(tb, decisions, blocks, depth + 1)

    walk(0, [], [], 0)
    return results


def r4_decision_tables(ctx):
    F = ctx.F
    iv = ctx.fn("ClientVisibility::is_visible")
    calls = [t for _, t in iv.calls() if callee_decl(t) == VIS + "::state"]
    tr = tracer(iv)
    ok = len(calls) == 1 and all(o.kind == "param" and o.data == 2 for o in tr.operand(calls[0]["args"][1])) and all(o.kind == "param" and o.data == 1 for o in tr.operand(calls[0]["args"][0]))
    ctx.check(ok, "is_visible/asks-state-of-its-argument", site_of(iv), "is_visible does not delegate to state(self, entity)")
    import absint
    try:
        st_table, q_table = absint.tables(F)
    except absint.Unmodelled as e:
        ctx.bad("ClientVisibility/queries-modelled", VIS, "the abstract interpreter met a construct it does not model: %s" % e, kind="anchor-missing")
        return
    want = {"Hidden": {False}, "Gained": {True}, "Visible": {True}}
    ctx.check(q_table == want, "is_visible/false-exactly-for-Hidden", site_of(iv), "is_visible maps states to %s (expected Hidden->false, Gained/Visible->true)" % q_table, str(q_table))
    st = ctx.fn("ClientVisibility::state")
    want = {
        ("Blacklist", "-"): {"Visible"}, ("Blacklist", "Hidden"): {"Hidden"}, ("Blacklist", "QueuedForRemoval"): {"Gained"},
        ("Whitelist", "-"): {"Hidden"}, ("Whitelist", "Visible"): {"Visible"}, ("Whitelist", "JustAdded"): {"Gained"},
    }
    names = {("Blacklist", "-"): "Blacklist-None--", ("Whitelist", "-"): "Whitelist-None--"}
    for k in sorted(want):
        ctx.check(st_table.get(k) == want[k], "state/%s" % names.get(k, "%s-Some-%s" % k), site_of(st),
                  "state() classifies (%s list, entry %s) as %s, the policy demands %s" % (k[0], k[1], sorted(map(str, st_table.get(k, []))), sorted(want[k])),
                  "-> %s" % sorted(want[k]))
    # state() looks up the entity it was asked about, in the list
    gets = [t for _, t in st.calls() if callee_decl(t).endswith("::get")]
    stt = tracer(st)
    ctx.check(len(gets) >= 2 and all(all(o.kind == "param" and o.data == 2 for o in stt.operand(t["args"][1])) for t in gets), "state/looks-up-its-argument", site_of(st),
              "state() does not look up the entity it was asked about")


def r5_state_machine(ctx):
    """Finite abstract interpretation of ClientVisibility's MIR (absint.py): every reachable per-entity state of either policy,
    every sequence of set_visibility / tick / despawn; plus the call protocol the exploration assumes, checked on the callers."""
    import absint
    F = ctx.F
    # --- the protocol the exploration assumes (order of calls made by the server per tick)
    cd = ctx.fn("server::collect_despawns")
    def calls_of(body, name):
        return [(bb, t) for bb, t in body.calls() if callee_decl(t) == VIS + "::" + name]
    isv, rem, dr = calls_of(cd, "is_visible"), calls_of(cd, "remove_despawned"), calls_of(cd, "drain_lost")
    ok = ctx.check(len(isv) == 1 and len(rem) == 1 and len(dr) == 1, "collect_despawns/protocol-calls", site_of(cd),
                   "expected exactly one is_visible, remove_despawned and drain_lost call, found %d/%d/%d" % (len(isv), len(rem), len(dr)))
    if ok:
        (ib, it), (rb, rt), (db, dt) = isv[0], rem[0], dr[0]
        ctx.check(cd.dominates(ib, rb), "collect_despawns/query-before-forget", site_of(cd, rb), "remove_despawned is reachable without the is_visible query of that entity")
        g = [x for x in required_outcomes(F, cd, rb) if x[1].get("kind") == "boolcall" and x[1].get("decl", "").startswith(VIS + "::")]
        ctx.check(not g, "collect_despawns/forget-unconditional", site_of(cd, rb), "remove_despawned depends on the outcome of is_visible")
        ctx.check(not cd.reachable_avoiding(rb, [], start=db), "collect_despawns/lost-drained-after-despawns", site_of(cd, db),
                  "remove_despawned can run after drain_lost in the same tick")
        same = next_sources(F, cd, it["args"][1]) & next_sources(F, cd, rt["args"][1])
        ctx.check(bool(same), "collect_despawns/forgets-queried-entity", site_of(cd, rb), "remove_despawned is not given the entity is_visible was asked about")
        # every entity yielded by drain_lost is written as a despawn
        adds = [(bb, t) for bb, t in cd.calls() if callee_decl(t) == UPD + "::add_despawn"]
        from_lost = []
        for bb, t in adds:
            for (pth, nb) in next_sources(F, cd, t["args"][1]):
                if pth == cd.path and any(o[0] == "call" and o[1] == db for o in dep_closure(cd, cd.blocks[nb].term["args"][0])):
                    from_lost.append(bb)
        ctx.check(bool(from_lost), "collect_despawns/lost-entities-despawned", site_of(cd, db), "entities yielded by drain_lost are not written as despawns")
        for lb in from_lost:
            extra = []
            for (sb, c, o) in required_outcomes(F, cd, lb):
                if is_next_switch(cd, c):
                    continue
                if c["kind"] == "variant" and o == {"Some"} and "ClientVisibility" in str(cd.locals[c["place"]["l"]]["ty"]):
                    continue
                extra.append((c["kind"], c.get("name") or c.get("rel") or c.get("adt"), sorted(map(str, o))))
            ctx.check(not extra, "collect_despawns/lost-entities-despawned-unconditionally", site_of(cd, lb),
                      "the despawn record for an entity whose visibility was lost is additionally conditioned on %s: the exploration assumes every entity reported by "
                      "drain_lost is despawned on the client" % extra)
    sr = ctx.fn("server::send_replication")
    order = []
    for nm in ("collect_despawns", "collect_changes", "send_messages"):
        cs = [bb for bb, t in sr.calls() if callee_decl(t).endswith("server::" + nm)]
        if ctx.check(len(cs) == 1, "send_replication/calls-%s-once" % nm, site_of(sr), "%d calls" % len(cs)):
            order.append((nm, cs[0]))
    for (n1, b1), (n2, b2) in zip(order, order[1:]):
        ctx.check(sr.dominates(b1, b2), "send_replication/%s-before-%s" % (n1, n2), site_of(sr, b2), "%s does not always run before %s" % (n1, n2))
    # --- the exploration itself
    try:
        viol, stats = absint.explore(F)
    except absint.Unmodelled as e:
        ctx.bad("ClientVisibility/modelled", VIS, "the abstract interpreter met a construct it does not model: %s" % e, kind="anchor-missing")
        return
    ctx.note("explored %d abstract states, %d transitions" % (stats["states"], stats["transitions"]))
    ctx.check(stats["states"] >= 6, "ClientVisibility/states-explored", VIS, "only %d abstract states explored" % stats["states"], "%d states, %d transitions" % (stats["states"], stats["transitions"]))
    invs = ["query-truthful", "loss-reported", "no-spurious-loss", "gain-delivers-whole-entity", "state-truthful-at-tick", "despawn-reported", "despawn-forgets-entity"]
    seen = set()
    for v in viol:
        seen.add((v["policy"], v["invariant"]))
        key = "%s/%s/%s/%s" % (v["policy"], v["invariant"], v["state"].replace(" ", ","), v["step"])
        ctx.bad(key, VIS + "::" + ("set_visibility" if v["step"] == "tick" else "remove_despawned" if v["step"] == "despawn" else "state"),
                "%s; shortest history: %s" % (v["detail"], " ; ".join(v["trace"])), detail="truth_visible=%s client_has=%s" % (v["truth_visible"], v["client_has"]))
    for pol in ("Blacklist", "Whitelist"):
        for inv in invs:
            if (pol, inv) not in seen:
                ctx.ok("%s/%s" % (pol, inv), VIS, "holds in every reachable state")


from rules.first_sight import r_first_sight

def r20_unconditional_mutators(ctx):
    """Mutators this property relies on always perform their effect (shared table in rules/mutators.py)."""
    import rules.mutators as mutators
    mutators.run_for(ctx, "C08")


RULES = [
    ("C08.R1", "every write of entity data into a client's buffer is dominated by that client's not-hidden test", r1_guarded_writes, 9, ["default", "all-features", "server-only"]),
    ("C08.R2", "the visibility test is about the entity whose data is written; recorded for every client before components are read", r2_right_entity, 8, ["default", "all-features", "server-only"]),
    ("C08.R3", "visibility state is private and committed once per client per tick after sending", r3_encapsulation, 7, ["default", "all-features", "server-only"]),
    ("C08.R4", "decision tables: is_visible is false exactly for Hidden; state() classifies membership per policy", r4_decision_tables, 9, ["default", "all-features", "server-only"]),
    ("C08.R5", "state machine: in every reachable ClientVisibility state of either policy, any sequence of set_visibility / tick / despawn reports losses, delivers gains whole and answers queries truthfully", r5_state_machine, 25, ["default", "all-features", "server-only"]),
    ("C08.R6", "first-sight completeness: a client that does not hold an entity yet (just authorized, just spawned, visibility gained) is sent every replicated component", r_first_sight, 14, ["default", "all-features", "server-only"]),
    ("C08.R20", "mutators this property relies on always perform their effect (rules/mutators.py): no early return, no guard outside the allowed set", r20_unconditional_mutators, 1, ["default", "all-features"]),
]
THOROUGH_CONFIGS = ["default", "all-features", "server-only"]
