"""C09 - Disconnects, reconnects and server restarts start from a clean slate."""
from engine import site_of
from facts import callee_decl, callee_name
from flow import tracer, short, required_outcomes, switch_cond, edge_outcome, dep_closure
from schedule import schedule
import effects

EXPLANATION = (
    "Effect-set inclusion. R1/R2: W = everything the session's systems (ClientSet::{Receive,Send} resp. ServerSet::{Receive,Send} "
    "plus the server-side observers) may write, computed from system parameter types, World accessors of exclusive systems and the "
    "FilteredResourcesMut builders; every element of W must be classified (reset / transport-owned / output / scratch / "
    "configuration / dies-with-client-entity) and every `reset` element must be written with a clearing operation by a system "
    "that runs on the matching status edge; clear() methods of session-state types must touch every field. R3: status changes "
    "purge the message queues; send/insert_received are no-ops outside a session. R4: the reset systems are scheduled on the "
    "right edges and before the next receive.")
NOT_DECIDED = "convergence of the new session; absence of panics for every in-flight combination; client-side replicated entities are left to the user by design"
TRUSTED_BASE = ["Bevy despawns an entity together with all its components and runs OnRemove observers", "run conditions are evaluated every frame the schedule runs"]
ASSUMPTIONS = ["messaging back ends call set_status / set_running on every status change (the example back end does)"]

B = "bevy_replicon::"
E = "bevy_ecs::event::collections::Events<"

# resource type (or family token) -> (class, reason)
CLIENT_CLASS = {
    B + "client::ServerUpdateTick": ("reset-on-disconnect", "tick of the last applied update message"),
    B + "shared::server_entity_map::ServerEntityMap": ("reset-on-disconnect", "server<->client entity mapping of the session"),
    B + "client::BufferedMutations": ("reset-on-disconnect", "mutate messages waiting for their update tick"),
    B + "client::server_mutate_ticks::ServerMutateTicks": ("reset-on-disconnect", "per-tick received-message counters"),
    B + "client::ClientReplicationStats": ("reset-on-disconnect", "session statistics"),
    "family:shared::event::server_event::ServerEvent::queue_id": ("reset-on-connect", "ClientEventQueue<E>: events waiting for their tick"),
    "family:shared::event::client_event::ClientEvent::events_id": ("reset-on-connect", "Events<E> of client events emitted while not connected"),
    B + "shared::backend::replicon_client::RepliconClient": ("transport-owned", "purged by set_status (R3)"),
    E + B + "client::confirm_history::EntityReplicated>": ("output", "notification for user code"),
    E + B + "client::server_mutate_ticks::MutateTickReceived>": ("output", "notification for user code"),
    "family:shared::event::server_event::ServerEvent::events_id": ("output", "Events<E> delivered to user code"),
    "family:shared::event::client_event::ClientEvent::client_events_id": ("output", "Events<FromClient<E>> produced by local re-emission"),
    "family:shared::event::client_event::ClientEvent::reader_id": ("cursor", "ClientEventReader<E> only advances; the buffer it reads is drained on connect"),
    B + "shared::replication::command_markers::CommandMarkers": ("configuration", "taken mutably only to split borrows; registration-time data"),
    B + "shared::replication::replication_registry::ReplicationRegistry": ("configuration", "registration-time data"),
    "local:" + B + "shared::replication::deferred_entity::DeferredChanges": ("scratch", "flushed per entity"),
    "local:" + B + "shared::replication::command_markers::EntityMarkers": ("scratch", "re-read per entity"),
}
SERVER_CLASS = {
    B + "server::server_tick::ServerTick": ("reset-on-stop", "replication tick"),
    B + "server::related_entities::RelatedEntities": ("reset-on-stop", "relationship graph of replicated entities"),
    B + "shared::event::server_event::BufferedServerEvents": ("reset-on-stop", "events waiting for the next tick"),
    B + "server::DespawnBuffer": ("reset-on-stop", "despawns collected between ticks"),
    B + "server::removal_buffer::RemovalBuffer": ("reset-on-stop", "removals collected between ticks"),
    B + "shared::backend::replicon_server::RepliconServer": ("transport-owned", "purged by set_running(false) and remove_client (R3)"),
    B + "shared::replication::client_ticks::EntityBuffer": ("pool", "pool of entity vectors, each cleared when taken"),
    "family:shared::event::client_event::ClientEvent::client_events_id": ("output", "Events<FromClient<E>> delivered to user code"),
    "family:shared::event::server_event::ServerEvent::events_id": ("output", "local re-emission for user code"),
    "family:shared::event::server_event::ServerEvent::server_events_id": ("input-drained", "Events<ToClients<E>> written by user code, drained by resend_locally"),
    E + B + "shared::backend::DisconnectRequest>": ("output", "request to the messaging back end"),
    "local:" + B + "server::replication_messages::serialized_data::SerializedData": ("scratch", "cleared at the end of every run"),
    "local:" + B + "server::removal_buffer::ReplicatedComponents": ("configuration", "component ids of the registered rules"),
    "local:alloc::vec::Vec<bevy_platform::collections::hash_set::HashSet<bevy_ecs::component::ComponentId>>": ("pool", "RemovalReader.ids_buffer: cleared sets kept for reuse"),
    "local:bevy_ecs::entity::hash_map::EntityHashMap<bevy_platform::collections::hash_set::HashSet<bevy_ecs::component::ComponentId>>": ("scratch", "RemovalReader.removals: drained at the start of every read()"),
    "local:bevy_platform::collections::hash_map::HashMap<bevy_ecs::component::ComponentId, bevy_ecs::event::event_cursor::EventCursor<bevy_ecs::removal_detection::RemovedComponentEntity>>": ("cursor", "RemovalReader.readers: event cursors only advance; Bevy clears removal events every frame"),
    "comp:" + B + "shared::replication::client_ticks::ClientTicks": ("client-entity", ""),
    "comp:" + B + "server::client_entity_map::ClientEntityMap": ("client-entity", ""),
    "comp:" + B + "server::client_visibility::ClientVisibility": ("client-entity", ""),
    "comp:" + B + "server::replication_messages::mutations::Mutations": ("client-entity", ""),
    "comp:" + B + "server::replication_messages::updates::Updates": ("client-entity", ""),
}
# session-state types whose clear() must touch every field, with reasoned exceptions
CLEAR_COMPLETE = {
    B + "shared::server_entity_map::ServerEntityMap": set(),
    B + "server::related_entities::RelatedEntities": {"remove_buffer", "scc"},  # scratch: drained after every use / recomputed by run()
    B + "shared::event::server_event::BufferedServerEvents": set(),
    B + "shared::event::server_event::BufferedServerEventSet": set(),
    B + "client::BufferedMutations": set(),
    B + "client::server_mutate_ticks::ServerMutateTicks": set(),
    B + "server::removal_buffer::RemovalBuffer": set(),
    B + "shared::event::server_event::client_event_queue::ClientEventQueue": {"marker"},
}


def _tokens(eff):
    out = set()
    for (k, t, m) in eff:
        if m != "w":
            continue
        if k == "res":
            out.add(t)
        elif k == "family":
            out.add("family:" + t)
        elif k == "local":
            out.add("local:" + t)
        elif k == "comp":
            out.add("comp:" + t)
    return out


def _systems_in(S, sets):
    return [e for e in S.systems if any(s in sets for s in e["sets"]) and e["where"].startswith("<bevy_replicon::")]


def _conditional(F, body, bb, param):
    """'' if the clearing write at bb happens on every run of the reset system (only the presence of the optional resource itself may
    be tested), else a description of the extra conditions."""
    extra = []
    tr = tracer(body)
    for (sb, c, o) in required_outcomes(F, body, bb):
        if c["kind"] == "variant" and o == {"Some"} and "place" in c:
            roots = {x.data for x in tr.place(c["place"]) if x.kind == "param"}
            if roots <= {param} and roots:
                continue
        extra.append("%s %s -> %s" % (c["kind"], c.get("name") or c.get("rel") or c.get("adt") or "", sorted(map(str, o))))
    return (" CONDITIONAL on " + "; ".join(extra)) if extra else ""


def _clearing_writes(F, path):
    """Resources a reset system clears: a ResMut/Option<ResMut> parameter that is either assigned a Default value or has a
    clear-like method called on it; plus family tokens whose erased `reset` fn pointer is invoked."""
    body = F.fns[path]
    tr = tracer(body)
    cleared = {}
    params = {}
    for i, ty in enumerate(body.j.get("inputs", []), start=1):
        for (k, t, m) in effects.param_effects(F, ty):
            if k == "res" and m == "w":
                params[i] = t
    for b in F.with_closures(body):
        btr = tracer(b)
        # calls of clear-like methods whose receiver derives from a ResMut param
        for bb, t in b.calls():
            d = callee_decl(t)
            m = d.rsplit("::", 1)[-1]
            if m in ("clear", "reset", "drain") and t["args"]:
                for o in btr.operand(t["args"][0]):
                    if o.kind == "param" and o.data in params and b is body:
                        cleared[params[o.data]] = ("%s()" % m) + _conditional(F, b, bb, o.data)
        # `*res = Default::default()`
        for bb, i, s in b.statements():
            if s["s"] == "assign" and s["place"]["p"] and "deref" in s["place"]["p"]:
                base = btr.local(s["place"]["l"])
                src = btr.operand(s["rvalue"]["op"]) if s["rvalue"]["rv"] == "use" else set()
                is_default = any(o.kind == "call" and callee_decl(b.blocks[o.data].term).endswith("Default::default") for o in src)
                for o in base:
                    if o.kind == "param" and o.data in params and is_default and b is body:
                        cleared[params[o.data]] = "= Default::default()" + _conditional(F, b, bb, o.data)
    return cleared


def _family_resets(F, path):
    """family tokens reset by a system that invokes the erased `reset` function of every registered event."""
    body = F.fns[path]
    toks = {}
    eff = effects.system_effects(F, path)
    fam = {t for (k, t, m) in eff if k == "family" and m == "w"}
    calls = [callee_decl(t) for _, t in body.calls()]
    for t in fam:
        owner = t.rsplit("::", 1)[0]
        if any(c.endswith(owner.rsplit("::", 1)[-1] + "::reset") for c in calls):
            toks["family:" + t] = "erased reset()"
    return toks


def _check_session(ctx, label, W, table, resets, who):
    for tok in sorted(W):
        cls = table.get(tok)
        key = "%s/%s" % (label, short(tok))
        if cls is None:
            ctx.bad(key + "/unclassified", "", "`%s` is written by %s during a session but is not classified: session state that is not reset "
                    "survives into the next session" % (short(tok), sorted(short(w) for w in who.get(tok, []))[:3]))
            continue
        c, reason = cls
        if c.startswith("reset"):
            how = resets.get(tok)
            if how is not None and " CONDITIONAL on " in how:
                ctx.bad(key + "/" + c + "/unconditional", "", "`%s` (%s) is cleared by the reset system only under an additional condition (%s): when it does not hold the state survives "
                        "into the next session" % (short(tok), reason, how.split(" CONDITIONAL on ", 1)[1]))
                continue
            ctx.check(how is not None, key + "/" + c, "",
                      "`%s` (%s) is written during a session by %s but no %s system clears it: the next session starts with stale data" % (
                          short(tok), reason, sorted(short(w) for w in who.get(tok, []))[:3], c),
                      "cleared by %s" % how)
        else:
            ctx.ok(key + "/" + c, "", reason)


def r1_client(ctx):
    F = ctx.F
    S = schedule(F)
    session = _systems_in(S, {"client::ClientSet::Receive", "client::ClientSet::Send"})
    if len(session) < 5:
        ctx.bad("client/session-systems", "", "only %d client session systems found" % len(session), kind="anchor-missing")
        return
    W, who = set(), {}
    for e in session:
        for tok in _tokens(effects.system_effects(F, e["path"])):
            W.add(tok)
            who.setdefault(tok, set()).add(e["path"])
    resets = {}
    for e in _systems_in(S, {"client::ClientSet::Reset"}):
        for k, v in _clearing_writes(F, e["path"]).items():
            resets[k] = "%s in %s" % (v, short(e["path"]))
    for e in _systems_in(S, {"client::ClientSet::ResetEvents"}):
        for k, v in _family_resets(F, e["path"]).items():
            resets[k] = "%s in %s" % (v, short(e["path"]))
    _check_session(ctx, "client", W, CLIENT_CLASS, resets, who)


def r2_server(ctx):
    F = ctx.F
    S = schedule(F)
    session = _systems_in(S, {"server::ServerSet::Receive", "server::ServerSet::Send"})
    obs = [o for o in S.observers if o["where"].startswith("<bevy_replicon::server") or "related_entities" in o["where"]]
    if len(session) < 8 or len(obs) < 4:
        ctx.bad("server/session-systems", "", "only %d server session systems / %d observers found" % (len(session), len(obs)), kind="anchor-missing")
        return
    W, who = set(), {}
    paths = [e["path"] for e in session] + [o["handler"] for o in obs] + [e["path"] for e in S.systems if e["path"].endswith("server::increment_tick")]
    for p in paths:
        for tok in _tokens(effects.system_effects(F, p)):
            W.add(tok)
            who.setdefault(tok, set()).add(p)
    resets = {}
    reset_systems = [e for e in S.systems if any(c.endswith("server_just_stopped") for c in e["run_if"]) and e["where"].startswith("<bevy_replicon::")]
    for e in reset_systems:
        for k, v in _clearing_writes(F, e["path"]).items():
            resets[k] = "%s in %s" % (v, short(e["path"]))
    _check_session(ctx, "server", W, SERVER_CLASS, resets, who)
    # per-client state dies with the client entity: required by AuthorizedClient / ConnectedClient or inserted only on such entities
    req = {r["required"] for r in S.required if r["component"].endswith("AuthorizedClient") or r["component"].endswith("ConnectedClient")}
    for tok in sorted(W):
        if tok.startswith("comp:"):
            t = tok[5:]
            ctx.check(t in req, "server/%s/required-by-client-entity" % short(t), "",
                      "per-client component `%s` is not part of the client entity's required components: it may outlive the session" % short(t))
    # reset despawns every connected client
    for e in reset_systems:
        b = F.fns[e["path"]]
        ins = b.j.get("inputs", [])
        q = [i for i in ins if "Query<" in i and "ConnectedClient" in i]
        desp = [bb for bb, t in b.calls() if callee_decl(t).endswith("EntityCommands::<'a>::despawn") and b.loops_containing(bb)]
        ctx.check(bool(q) and bool(desp), "%s/despawns-all-clients" % short(e["path"]), site_of(b),
                  "the stop handler does not despawn every ConnectedClient entity (per-client state and queued messages would survive)")
    ctx.check(bool(reset_systems), "server/reset-system", "", "no system runs on server_just_stopped")
    removed_client_purge(ctx)


def removed_client_purge(ctx):
    """Queued messages of a removed client are purged, for every removed client, from both directions' queues (also C06.R4)."""
    F = ctx.F
    S = schedule(F)
    # queued messages of a removed client are purged
    hd = [o for o in S.observers if o["event"].endswith("OnRemove") and o["bundle"].endswith("ConnectedClient")]
    ok = False
    for o in hd:
        b = F.fns[o["handler"]]
        for cbb, t in b.calls():
            if not callee_decl(t).endswith("RepliconServer::remove_client"):
                continue
            ok = True
            # for every removed client, whatever its state (a connected-but-unauthorized client has queued messages too: its handshake)
            rets = [x.idx for x in b.blocks if x.idx in b.reach and x.term["t"] == "return"]
            skipping = [r for r in rets if b.reachable_avoiding(r, [], removed_blocks=(cbb,))]
            ctx.check(not skipping, "server/purge-on-client-removal/unconditional", site_of(b, cbb),
                      "the removed client's queued messages are purged only on some paths: messages of a client removed in another state are delivered after the client "
                      "entity is gone (%s)" % [(c["kind"], c.get("name"), sorted(map(str, o_))) for (_, c, o_) in required_outcomes(F, b, cbb)])
            src = tracer(b).operand(t["args"][1])
            ctx.check(bool(src) and all(x.kind == "call" and callee_decl(b.blocks[x.data].term).endswith("::target") for x in src), "server/purge-on-client-removal/removed-client",
                      site_of(b, cbb), "the purge is not given the removed client (the trigger's target)")
    ctx.check(ok, "server/purge-on-client-removal", "", "no OnRemove<ConnectedClient> observer purges the removed client's queued messages")
    rc = ctx.fn("RepliconServer::remove_client")
    touched = set()
    for b in F.with_closures(rc):
        for bb, t in b.calls():
            for o in tracer(b).operand(t["args"][0]) if t["args"] else []:
                for e2 in o.path:
                    if e2[0] == "f" and e2[3] and e2[3].endswith("RepliconServer"):
                        touched.add(e2[2])
    ctx.check({"received_messages", "sent_messages"} <= touched, "RepliconServer::remove_client/both-queues", site_of(rc),
              "remove_client purges only %s" % sorted(touched))



def _fields_touched(F, body, adt):
    touched = set()
    for b in F.with_closures(body):
        from flow import resolve_through_closure
        btr = tracer(b)
        for bb, i, s in b.statements():
            if s["s"] != "assign":
                continue
            for pl in (s["place"], s["rvalue"].get("place")):
                if pl:
                    for e in pl["p"]:
                        if isinstance(e, dict) and e.get("adt") == adt:
                            touched.add(e["name"])
        for bb, t in b.calls():
            for a in t.get("args", []):
                pl = a.get("place")
                if pl:
                    for e in pl["p"]:
                        if isinstance(e, dict) and e.get("adt") == adt:
                            touched.add(e["name"])
                origins = btr.operand(a)
                if b.kind == "Closure":
                    origins = {o for (_, o) in resolve_through_closure(F, b, origins)}
                for o in origins:
                    for e in o.path:
                        if e[0] == "f" and e[3] == adt:
                            touched.add(e[2])
    return touched


def r1b_clear_complete(ctx):
    F = ctx.F
    for adt, exempt in sorted(CLEAR_COMPLETE.items()):
        a = F.adts.get(adt)
        if a is None:
            if ctx.config in ("default", "all-features"):
                ctx.bad("%s/type" % short(adt), "", "session-state type not found", kind="anchor-missing")
            continue
        cl = [b for p, b in F.fns.items() if b.j.get("impl_self_adt") == adt and p.endswith("::clear") and b.kind == "AssocFn"]
        if not cl:
            ctx.bad("%s/clear" % short(adt), adt, "no clear() method on a session-state type", kind="anchor-missing")
            continue
        fields = {f["name"] for f in a["variants"][0]["fields"]}
        touched = _fields_touched(F, cl[0], adt)
        missing = fields - touched - exempt
        ctx.check(not missing, "%s::clear/touches-every-field" % short(adt), site_of(cl[0]),
                  "clear() leaves field(s) %s untouched: part of the previous session's state survives a reset" % sorted(missing),
                  "touches %s" % sorted(touched))


def r3_purge(ctx):
    F = ctx.F
    # ---- client
    ss = ctx.fn("RepliconClient::set_status")
    tr = tracer(ss)
    CL = B + "shared::backend::replicon_client::RepliconClient"
    clears = {}
    for bb, t in ss.calls():
        if callee_decl(t).endswith("Vec::<T, A>::clear") and t["args"]:
            for (k, d) in dep_closure(ss, t["args"][0]) | {("x", None)}:
                pass
            for o in tr.operand(t["args"][0]):
                for e in o.path:
                    if e[0] == "f" and e[3] == CL:
                        clears[e[2]] = bb
            # clear on the loop item of received_messages
            for (k, d) in dep_closure(ss, t["args"][0]):
                if k == "call":
                    ct = ss.blocks[d].term
                    for a in ct.get("args", []):
                        for o in tr.operand(a):
                            for e in o.path:
                                if e[0] == "f" and e[3] == CL:
                                    clears.setdefault(e[2], bb)
    ctx.check({"received_messages", "sent_messages"} <= set(clears), "RepliconClient::set_status/purges-both-queues", site_of(ss),
              "set_status clears only %s when leaving the connected state" % sorted(clears))
    for fld, bb in clears.items():
        from flow import is_next_switch as _ins
        g = [x for x in required_outcomes(F, ss, bb) if not _ins(ss, x[1])]
        conds = []
        for (sbb, c, o) in g:
            if c["kind"] == "boolcall":
                conds.append((short(c["name"]), tuple(sorted(map(str, o)))))
            elif c["kind"] == "variant":
                conds.append(("variant:" + str(c.get("adt", "")).rsplit("::", 1)[-1], tuple(sorted(map(str, o)))))
            elif c["kind"] == "cmp":
                conds.append(("cmp", tuple(sorted(map(str, o)))))
        extra = [c for c in conds if not (c[0].endswith("is_connected") and c[1] == ("True",)) and not c[0].startswith("variant:") and not c[0] == "cmp"]
        has_conn = any(c[0].endswith("is_connected") and c[1] == ("True",) for c in conds)
        ctx.check(has_conn and not extra and len(conds) <= 2, "RepliconClient::set_status/%s-purged-whenever-leaving-connected" % fld, site_of(ss, bb),
                  "the purge of `%s` is guarded by %s (expected: was connected and new status is not Connected)" % (fld, conds))
    # status assignment on every path
    assigns = [bb for bb, i, s in ss.statements() if s["s"] == "assign" and s["place"]["p"] and isinstance(s["place"]["p"][-1], dict) and s["place"]["p"][-1].get("name") == "status"]
    ctx.check(bool(assigns) and all(ss.postdominates(a, 0) for a in assigns[:1]), "RepliconClient::set_status/status-always-stored", site_of(ss), "the new status is not stored on every path")
    for name, fld in (("send", "sent_messages"), ("insert_received", "received_messages")):
        b = ctx.fn("RepliconClient::" + name)
        btr = tracer(b)
        pushes = [bb for bb, t in b.calls() if callee_decl(t).endswith("Vec::<T, A>::push")]
        ok = bool(pushes)
        for bb in pushes:
            g = [(short(c["name"]), o) for (s_, c, o) in required_outcomes(F, b, bb) if c["kind"] == "boolcall"]
            if not any(n.endswith("is_connected") and o == {True} for n, o in g):
                ok = False
        ctx.check(ok, "RepliconClient::%s/no-op-unless-connected" % name, site_of(b), "messages can be queued while not connected")
    # ---- server
    sr = ctx.fn("RepliconServer::set_running")
    SV = B + "shared::backend::replicon_server::RepliconServer"
    str_ = tracer(sr)
    clears = {}
    for bb, t in sr.calls():
        if callee_decl(t).endswith("Vec::<T, A>::clear") and t["args"]:
            for o in str_.operand(t["args"][0]):
                for e in o.path:
                    if e[0] == "f" and e[3] == SV:
                        clears[e[2]] = bb
            for (k, d) in dep_closure(sr, t["args"][0]):
                if k == "call":
                    for a in sr.blocks[d].term.get("args", []):
                        for o in str_.operand(a):
                            for e in o.path:
                                if e[0] == "f" and e[3] == SV:
                                    clears.setdefault(e[2], bb)
    ctx.check({"received_messages", "sent_messages"} <= set(clears), "RepliconServer::set_running/purges-both-queues", site_of(sr),
              "set_running(false) clears only %s" % sorted(clears))
    from flow import deep_origins
    for fld, bb in clears.items():
        from flow import is_next_switch
        g = [x for x in required_outcomes(F, sr, bb) if not is_next_switch(sr, x[1])]
        ok = False
        if len(g) == 1:
            (sbb, c, o) = g[0]
            on_param = any(x.kind == "param" and x.data == 2 for x in deep_origins(sr, sr.blocks[sbb].term["discr"]))
            ok = on_param and o == {False}
        ctx.check(ok, "RepliconServer::set_running/%s-purged-on-stop" % fld, site_of(sr, bb), "the purge of `%s` is not exactly under `!running`: %s" % (fld, [(c["kind"], o) for (_, c, o) in g]))
    for name in ("send", "insert_received"):
        b = ctx.fn("RepliconServer::" + name)
        btr = tracer(b)
        pushes = [bb for bb, t in b.calls() if callee_decl(t).endswith("Vec::<T, A>::push")]
        ok = bool(pushes)
        for bb in pushes:
            okp = False
            for (s_, c, o) in required_outcomes(F, b, bb):
                d = btr.operand(b.blocks[s_].term["discr"])
                if any(x.path and x.path[-1][2] == "running" for x in d):
                    val = next(iter(o))
                    okp = (val is True)
            ok = ok and okp
        ctx.check(ok, "RepliconServer::%s/no-op-unless-running" % name, site_of(b), "messages can be queued while the server is not running")


def r4_scheduling(ctx):
    F = ctx.F
    S = schedule(F)
    sets = {e["path"]: e for e in S.set_configs}
    rs = sets.get("client::ClientSet::Reset")
    re_ = sets.get("client::ClientSet::ResetEvents")
    rc = sets.get("client::ClientSet::Receive")
    ok = rs and any(c.endswith("client_just_disconnected") for c in rs["run_if"])
    ctx.check(bool(ok), "ClientSet::Reset/runs-on-disconnect", "", "ClientSet::Reset is not gated by client_just_disconnected: %s" % (rs and rs["run_if"]))
    ok = re_ and any(c.endswith("client_just_connected") for c in re_["run_if"])
    ctx.check(bool(ok), "ClientSet::ResetEvents/runs-on-connect", "", "ClientSet::ResetEvents is not gated by client_just_connected: %s" % (re_ and re_["run_if"]))
    if rs and re_ and rc:
        same_chain = rs["chains"] and rc["chains"] and rs["chains"][0][0] == rc["chains"][0][0] == re_["chains"][0][0]
        before = same_chain and rs["chains"][0][1] < rc["chains"][0][1] and re_["chains"][0][1] < rc["chains"][0][1]
        ctx.check(bool(before) and rs["schedule"] == rc["schedule"], "ClientSet/resets-before-receive", "", "the reset sets are not ordered before ClientSet::Receive in one chain")
    else:
        ctx.bad("ClientSet/configured", "", "client set configuration not found", kind="anchor-missing")
    cr = S.system("client::reset")
    ctx.check(len(cr) == 1 and "client::ClientSet::Reset" in cr[0]["sets"], "client::reset/in-Reset-set", "", "client::reset registration: %s" % [(e["sets"]) for e in cr])
    er = S.system("client::event::reset")
    ctx.check(len(er) == 1 and "client::ClientSet::ResetEvents" in er[0]["sets"], "client::event::reset/in-ResetEvents-set", "", "client::event::reset registration: %s" % [(e["sets"]) for e in er])
    sr = S.system("server::reset")
    ctx.check(len(sr) == 1 and any(c.endswith("server_just_stopped") for c in sr[0]["run_if"]) and not sr[0]["arm"],
              "server::reset/runs-on-stop", "", "server::reset registration: %s" % [(e["run_if"], e["arm"]) for e in sr])
    # edge detectors really are edges of the status they name
    for fn_name, meth, want in (("client_just_disconnected", "is_disconnected", "rising"), ("client_just_connected", "is_connected", "rising"),
                                ("server_just_stopped", "is_running", "falling")):
        b = ctx.fn("common_conditions::" + fn_name)
        calls = []
        for bb_ in F.with_closures(b):
            calls += [callee_decl(t).rsplit("::", 1)[-1] for _, t in bb_.calls()]
        ctx.check(meth in calls, "%s/tests-%s" % (fn_name, meth), site_of(b), "edge detector does not look at %s()" % meth)
        # the Local is updated on every path (otherwise the edge would fire repeatedly / never)
        stores = [bb for bb, i, s in b.statements() if s["s"] == "assign" and s["place"]["p"] and "deref" in s["place"]["p"]]
        ctx.check(bool(stores) and any(b.postdominates(s, 0) for s in stores), "%s/remembers-last-state" % fn_name, site_of(b), "the previous state is not stored on every evaluation")



def r5_buffered_events_not_for_new_sessions(ctx):
    """Server events buffered before a client (re)connected are not delivered to its new session: the connect observer excludes the
    client from every pending set, and later events go into fresh sets (same rule as C05.R2)."""
    import rules.C05 as C05
    C05.r2_late_joiners(ctx)


def r20_unconditional_mutators(ctx):
    """Mutators this property relies on always perform their effect (shared table in rules/mutators.py)."""
    import rules.mutators as mutators
    mutators.run_for(ctx, "C09")


RULES = [
    ("C09.R1", "client: everything the session writes is classified and reset state is cleared on the status edge", r1_client, 12, ["default", "all-features", "client-only"]),
    ("C09.R1b", "clear() of every session-state type touches every field", r1b_clear_complete, 3, None),
    ("C09.R2", "server: everything the session writes is classified, reset on stop, per-client state dies with the client entity", r2_server, 15, ["default", "all-features", "server-only"]),
    ("C09.R3", "status changes purge the message queues; queues are closed outside a session", r3_purge, 10, None),
    ("C09.R4", "reset systems run on the right status edges and before the next receive", r4_scheduling, 8, ["default", "all-features"]),
    ("C09.R5", "events buffered before a (re)connect never reach the new session (same rule as C05.R2)", r5_buffered_events_not_for_new_sessions, 6, ["default", "all-features", "server-only"]),
    ("C09.R20", "mutators this property relies on always perform their effect (rules/mutators.py): no early return, no guard outside the allowed set", r20_unconditional_mutators, 4, ["default", "all-features"]),
]
THOROUGH_CONFIGS = ["default", "all-features", "server-only", "client-only"]


# --------------------------------------------------------------------------- R1c: reuse pools never carry data
def _pool_id(F, body, op):
    from flow import resolve_through_closure
    tr = tracer(body)
    origins = [(body, o) for o in tr.operand(op)]
    if body.kind == "Closure":
        # origins rooted at captures refer to the creating function; local types of its params are looked up there
        origins = list(resolve_through_closure(F, body, tr.operand(op)))
    ids = set()
    for (ob, o) in origins:
        flds = [e for e in o.path if e[0] == "f" and e[3] and e[3] in F.adts]
        if flds:
            # a single-field wrapper (`struct Pool(Vec<..>)`) is the same pool whether reached through its field or through Deref
            single = len(F.adt_fields(flds[-1][3]) or []) == 1
            ids.add((flds[-1][3], "*" if single else flds[-1][2]))
        elif o.kind == "param" and ob.kind != "Closure":
            ty = ob.locals[o.data]["ty"].replace("&mut ", "").replace("&", "").strip()
            base = ty.split("<")[0]
            if base in F.adts:
                ids.add((base, "*"))
    return ids


def _same_value(body, a, b):
    tr = tracer(body)
    oa, ob = tr.operand(a), tr.operand(b)
    return bool(oa) and oa == ob


def find_pools(F):
    pools = {}
    for body in F.real_fns():
        if "::tests::" in body.path or body.crate != "bevy_replicon":
            continue
        tr = tracer(body)
        for bb, t in body.calls():
            if callee_decl(t).endswith("Option::<T>::unwrap_or_default"):
                for o in tr.operand(t["args"][0]):
                    if o.kind == "call" and callee_decl(body.blocks[o.data].term).endswith("Vec::<T, A>::pop"):
                        for pid in _pool_id(F, body, body.blocks[o.data].term["args"][0]):
                            pools.setdefault(pid, {"pops": [], "pushes": []})["pops"].append((body, o.data, bb))
    for body in F.real_fns():
        if "::tests::" in body.path or body.crate != "bevy_replicon":
            continue
        for bb, t in body.calls():
            d = callee_decl(t)
            m = d.rsplit("::", 1)[-1]
            if (m == "push" and "Vec" in d) or (m == "extend" and d.endswith("Extend::extend")):
                for pid in _pool_id(F, body, t["args"][0]):
                    if pid in pools:
                        pools[pid]["pushes"].append((body, bb, m, t["args"][1]))
    return pools


def _pop_clears(F, body, pop_bb, unwrap_bb):
    """The value taken from the pool is cleared before any use."""
    tr = tracer(body)
    for bb, t in body.calls():
        m = callee_decl(t).rsplit("::", 1)[-1]
        if m == "clear" and t["args"]:
            o = tr.operand(t["args"][0])
            if o and all(x.kind == "call" and x.data == unwrap_bb for x in o) and body.dominates(unwrap_bb, bb) and body.postdominates(bb, unwrap_bb):
                return True
    return False


def _closure_returns_cleared(F, cb):
    """closure returns a collection on which it called clear()/drain(..) first."""
    tr = tracer(cb)
    ret = tr.local(0)
    if not ret:
        return False
    for bb, t in cb.calls():
        m = callee_decl(t).rsplit("::", 1)[-1]
        if m in ("clear", "drain") and t["args"]:
            if tr.operand(t["args"][0]) == ret:
                return True
    return False


def r1c_pool_hygiene(ctx):
    F = ctx.F
    pools = find_pools(F)
    if len(pools) < (5 if ctx.config in ("default", "all-features") else 1):
        ctx.bad("pools", "", "only %d reuse pools found" % len(pools), kind="anchor-missing")
    for pid, info in sorted(pools.items()):
        name = "%s.%s" % (short(pid[0]), pid[1])
        all_pops_clear = all(_pop_clears(F, b, pb, ub) for (b, pb, ub) in info["pops"])
        if all_pops_clear:
            ctx.ok("%s/cleared-when-taken" % name, site_of(info["pops"][0][0], info["pops"][0][1]), "every value taken from the pool is cleared before use (%d pop site(s))" % len(info["pops"]))
            continue
        for (body, bb, m, val) in info["pushes"]:
            tr = tracer(body)
            ok = None
            vo = tr.operand(val)
            # (a) cleared / drained before being returned to the pool
            for b2, t2 in body.calls():
                m2 = callee_decl(t2).rsplit("::", 1)[-1]
                if m2 in ("clear", "drain") and t2["args"] and tr.operand(t2["args"][0]) == vo and body.dominates(b2, bb):
                    ok = "cleared before being pooled"
            # (a') produced by a closure that clears what it returns
            if ok is None:
                cls = []
                for (k, d) in dep_closure(body, val):
                    if k == "stmt":
                        rv = body.blocks[d[0]].stmts[d[1]]["rvalue"]
                        if rv["rv"] == "agg" and rv["kind"] == "closure" and F.fns.get(rv["closure"]):
                            cls.append(F.fns[rv["closure"]])
                if cls and all(_closure_returns_cleared(F, c) for c in cls):
                    ok = "mapped through a closure that clears each value"
            # (b) only pooled when empty
            if ok is None:
                for (sbb, c, o) in required_outcomes(F, body, bb):
                    if c["kind"] == "boolcall" and c["name"].endswith("::is_empty") and o == {True} and tr.operand(c["args"][0]) == vo:
                        ok = "pooled only when empty"
            # (d) drained through the pool slot right after
            if ok is None:
                for b2, t2 in body.calls():
                    if callee_decl(t2).rsplit("::", 1)[-1] == "drain" and body.dominates(bb, b2) and body.postdominates(b2, bb):
                        for (k, d) in dep_closure(body, t2["args"][0]):
                            if k == "call" and callee_decl(body.blocks[d].term).endswith("::last_mut") and _pool_id(F, body, body.blocks[d].term["args"][0]) & {pid}:
                                ok = "drained through the pool slot"
            ctx.check(ok is not None, "%s/%s@%s" % (name, short(body.path), m), site_of(body, bb),
                      "a collection is returned to the reuse pool `%s` without being emptied and the pool's users do not clear what they take: "
                      "its old contents resurface in the next value built from the pool (after a reset: data of the previous session)" % name, ok)


RULES.insert(2, ("C09.R1c", "reuse pools never carry data: pooled collections are emptied when returned or when taken", r1c_pool_hygiene, 1, None))
