"""First-sight completeness (shared by C02, C03, C07, C08): a client that does not hold an entity yet -- it was just
authorized, the entity was just spawned / started replicating, or its visibility was just gained -- is sent *every*
replicated component of the entity, whatever the send rate and change ticks say.

Structural form, on `server::collect_changes`:
  (a) loop nesting: every iteration of the entity loop reaches the component loop and the final per-client loop; every
      iteration of the component loop reaches the per-client loop (no `continue`/`break` that skips them, `?` aside);
  (b) in the per-client loop the insertion write (`Updates::add_inserted_component`) is reached on every path from the
      `None` outcome of the "does this client know the entity" test, which is rooted at `ClientTicks::mutation_tick`
      of the iterated entity and narrowed only by `Option::filter`;
  (c) the three conditions that force the insertion path although a tick is recorded are all present: the entity's marker
      was added this run, the visibility is `Gained`, the component was added this run.
"""
from engine import site_of
from facts import callee_decl
from flow import (tracer, switch_cond, is_try_switch, is_next_switch, deps_with_env, promoted_variant, required_outcomes, short, deep_origins, dep_closure)

UPD = "bevy_replicon::server::replication_messages::updates::Updates"
TICKS = "bevy_replicon::shared::replication::client_ticks::ClientTicks"


def _loop_of(body, header):
    for h, bs in body.loops():
        if h == header:
            return bs
    return None


def _skips(F, body, outer_h, outer_bs, must_pass):
    """Blocks from which an iteration of the outer loop completes (back edge) or leaves the loop (non-`?`, non-iteration
    exit) without passing one of the `must_pass` blocks. -> list of (kind, from_bb, to_bb)."""
    out = []
    seen = set()
    work = [t for (t, _) in body.succ[outer_h] if t in outer_bs]
    while work:
        x = work.pop()
        if x in seen or x in must_pass:
            continue
        seen.add(x)
        for (t, lab) in body.succ[x]:
            if t == outer_h:
                out.append(("continue", x, t))
            elif t not in outer_bs:
                term = body.blocks[x].term
                if term["t"] == "switch":
                    c = switch_cond(body, x)
                    if is_try_switch(body, c) or is_next_switch(body, c):
                        continue
                out.append(("break", x, t))
            else:
                work.append(t)
    return out


def _kind_of_condition(F, deps, bodies):
    """Classifies a condition by what it is computed from."""
    names = set()
    for (p, k, x) in deps:
        if k == "call":
            b = F.fns.get(p)
            if b is not None:
                names.add(callee_decl(b.blocks[x].term).rsplit("::", 1)[-1])
    kinds = set()
    if "is_added" in names and "marker_id" in names:
        kinds.add("marker-added")
    if "is_added" in names and "marker_id" not in names and "get_component_unchecked" in names:
        kinds.add("component-added")
    if "entity_visibility" in names:
        kinds.add("visibility")
    return kinds


def r_first_sight(ctx):
    F = ctx.F
    cc = ctx.fn("server::collect_changes")
    ins = [(bb, t) for bb, t in cc.calls() if callee_decl(t) == UPD + "::add_inserted_component"]
    if not ctx.check(len(ins) == 1, "collect_changes/one-insertion-site", site_of(cc), "%d add_inserted_component call sites" % len(ins)):
        return
    ib, it = ins[0]
    chain = sorted(cc.loops_containing(ib), key=lambda hb: -len(hb[1]))  # outermost first
    if not ctx.check(len(chain) >= 3, "collect_changes/insertion-nesting", site_of(cc, ib), "the insertion write is nested in %d loops (expected entity > component > client)" % len(chain)):
        return
    client_h, client_bs = chain[-1]
    comp_h, comp_bs = chain[-2]
    ent_h, ent_bs = chain[-3]
    # the final per-client loop: the one that records the mutation tick
    fin = [bb for bb, t in cc.calls() if callee_decl(t) == TICKS + "::set_mutation_tick"]
    fin_loops = [max(cc.loops_containing(bb), key=lambda hb: -len(hb[1]))[0] if False else min(cc.loops_containing(bb), key=lambda hb: len(hb[1]))[0] for bb in fin if cc.loops_containing(bb)]
    ctx.check(len(set(fin_loops)) == 1 and fin_loops[0] in ent_bs and fin_loops[0] not in comp_bs, "collect_changes/final-client-loop", site_of(cc),
              "the per-client loop that records the entity's tick is not a sibling of the component loop")
    # (a) nesting
    sk = _skips(F, cc, ent_h, ent_bs, {comp_h})
    ctx.check(not sk, "collect_changes/every-entity-reaches-components", site_of(cc, sk[0][1]) if sk else site_of(cc, ent_h),
              "an entity iteration can %s without visiting its components: no client receives them" % (sk[0][0] if sk else ""))
    if fin_loops:
        sk = _skips(F, cc, ent_h, ent_bs, {fin_loops[0]})
        ctx.check(not sk, "collect_changes/every-entity-reaches-final-loop", site_of(cc, sk[0][1]) if sk else site_of(cc, ent_h),
                  "an entity iteration can %s without the per-client pass that records ticks and writes empty new entities" % (sk[0][0] if sk else ""))
    sk = _skips(F, cc, comp_h, comp_bs, {client_h})
    ctx.check(not sk, "collect_changes/every-component-reaches-clients", site_of(cc, sk[0][1]) if sk else site_of(cc, comp_h),
              "a component iteration can %s before the per-client pass: a client that does not hold the entity yet (just authorized, just gained visibility) "
              "never receives this component" % (sk[0][0] if sk else ""))
    # (b) the known-entity test
    tr = tracer(cc)
    tests = []
    for bb in sorted(client_bs):
        if cc.blocks[bb].term["t"] != "switch":
            continue
        c = switch_cond(cc, bb)
        if c["kind"] != "variant" or not (c.get("adt") or "").endswith("Option") or is_next_switch(cc, c) or is_try_switch(cc, c):
            continue
        roots = [o for o in tr.operand({"k": "copy", "place": c["place"]}) if o.kind == "call"]
        if roots and all(callee_decl(cc.blocks[o.data].term) == TICKS + "::mutation_tick" for o in roots):
            tests.append((bb, c, roots))
    if not ctx.check(len(tests) == 1, "collect_changes/known-entity-test", site_of(cc, client_h),
                     "expected one test of `ClientTicks::mutation_tick` (narrowed by filters only) in the per-client loop, found %d" % len(tests)):
        return
    tb, tc, roots = tests[0]
    from flow import edge_outcome
    none_targets = [t for (t, lab) in cc.succ[tb] if "None" in (lambda o: set(o) if isinstance(o, (tuple, set, list)) else {o})(edge_outcome(F, cc, tb, lab, tc))]
    ctx.check(bool(none_targets), "collect_changes/known-entity-test/none-edge", site_of(cc, tb), "no None edge")
    # from the None outcome every path of this iteration writes the component as an insertion
    bad = []
    for start in none_targets:
        seen, work = set(), [start]
        while work:
            x = work.pop()
            if x in seen or x == ib:
                continue
            seen.add(x)
            for (t, lab) in cc.succ[x]:
                if t == client_h:
                    bad.append(x)
                elif t not in client_bs:
                    term = cc.blocks[x].term
                    if term["t"] == "switch" and is_try_switch(cc, switch_cond(cc, x)):
                        continue
                    bad.append(x)
                else:
                    work.append(t)
    ctx.check(not bad, "collect_changes/unknown-entity-gets-insertion", site_of(cc, bad[0]) if bad else site_of(cc, ib),
              "a client with no recorded tick for the entity can finish the iteration without the component being written as an insertion")
    # the entity asked about is the iterated one, the ticks are this client's
    mt = cc.blocks[roots[0].data].term
    from flow import next_sources
    ent_src = next_sources(F, cc, mt["args"][1])
    ctx.check((cc.path, ent_h) in ent_src, "collect_changes/known-entity-test/iterated-entity", site_of(cc, roots[0].data), "mutation_tick is not asked about the iterated entity")
    cl_src = next_sources(F, cc, mt["args"][0])
    ctx.check((cc.path, client_h) in cl_src, "collect_changes/known-entity-test/this-client", site_of(cc, roots[0].data), "mutation_tick is not asked of the iterated client")
    # (c) forced insertion conditions: filters between mutation_tick and the test + guards of the mutation write
    conds = []
    for bb, t in cc.calls():
        if bb in client_bs and callee_decl(t).endswith("Option::<T>::filter"):
            # closure operand
            for o in tr.operand(t["args"][1]):
                if o.kind == "stmt":
                    rv = cc.blocks[o.data[0]].stmts[o.data[1]]["rvalue"]
                    if rv["rv"] == "agg" and rv["kind"] == "closure":
                        cb = F.fns.get(rv["closure"])
                        if cb is not None:
                            deps = deps_with_env(F, cb, {"k": "copy", "place": {"l": 0, "p": []}})
                            gained = any(promoted_variant(cb, a, "Visibility") == "Gained" for _, ct in cb.calls() for a in ct["args"])
                            conds.append((site_of(cc, bb), deps, gained))
    muts = [bb for bb, t in cc.calls() if bb in client_bs and callee_decl(t).endswith("Mutations::add_component")]
    for mb in muts:
        for (sb, c, outs) in required_outcomes(F, cc, mb):
            if sb not in client_bs or is_next_switch(cc, c):
                continue
            ops = []
            if c["kind"] == "boolcall":
                ops = c.get("args", [])
                deps = {(cc.path, "call", c["bb"])}
            else:
                deps = set()
                if "place" in c:
                    ops = [{"k": "copy", "place": c["place"]}]
                ops += c.get("operands", [])
            for op in ops:
                deps |= deps_with_env(F, cc, op)
            gained = c["kind"] == "cmp" and any(promoted_variant(cc, a, "Visibility") == "Gained" for a in c.get("operands", []))
            conds.append((site_of(cc, sb), deps, gained))
    found = {}
    for (site, deps, gained) in conds:
        ks = _kind_of_condition(F, deps, None)
        if "visibility" in ks and gained:
            found.setdefault("visibility-gained", site)
        for k in ("marker-added", "component-added"):
            if k in ks:
                found.setdefault(k, site)
    why = {"marker-added": "an entity that just started replicating is sent with all its components (even those unchanged for a long time)",
           "visibility-gained": "an entity whose visibility was just gained is sent with all its components",
           "component-added": "a component inserted this tick is sent as an insertion"}
    for k in ("marker-added", "visibility-gained", "component-added"):
        ctx.check(k in found, "collect_changes/forces-insertion/" + k, found.get(k, site_of(cc, tb)),
                  "no condition on the way to the mutation branch depends on `%s`: %s -- not guaranteed any more" % (k, why[k]), why[k])
    r_empty_new_entity(ctx)


def r_empty_new_entity(ctx):
    """(d) An entity that is new for a client - it just started replicating, or its visibility was just gained - is written even when
    it has no replicated component (an empty record): the forced write in the final per-client loop is taken under a condition that
    depends on *both* reasons. (Part of first-sight completeness; separate function so that it gets its own instances.)"""
    F = ctx.F
    cc = ctx.fn("server::collect_changes")
    sites = [(bb, t) for bb, t in cc.calls() if callee_decl(t) == UPD + "::add_changed_entity"]
    forced = []
    for bb, t in sites:
        g = [x for x in required_outcomes(F, cc, bb) if not is_next_switch(cc, x[1])]
        if any(c["kind"] == "boolcall" and c["name"] == UPD + "::changed_entity_added" and o == {False} for (_, c, o) in g) and \
                not any(callee_decl(t2).endswith("write_component_cached") for b2, t2 in cc.calls() if cc.dominates(bb, b2) and b2 != bb and False):
            forced.append((bb, g))
    # the forced write is the one outside the component loop
    comp_writes = [bb for bb, t in cc.calls() if callee_decl(t) == UPD + "::add_inserted_component"]
    comp_loops = set()
    for cb in comp_writes:
        for h, bs in cc.loops_containing(cb):
            comp_loops.add(h)
    forced = [(bb, g) for (bb, g) in forced if not (comp_writes and any(bb in bs for cb in comp_writes for h, bs in [min(cc.loops_containing(cb), key=lambda hb: len(hb[1]))]))]
    if not ctx.check(len(forced) == 1, "collect_changes/empty-entity-write", site_of(cc), "expected one forced write of an entity without component records, found %d" % len(forced)):
        return
    bb, g = forced[0]
    names, gained = set(), False
    # a short-circuit `a || b` stored in a local is `local = true` under `a`, else `local = b`: follow the control dependence too
    extra_switches = []
    for (sb, c, o) in g:
        d = cc.blocks[sb].term["discr"]
        if d.get("place") and not d["place"]["p"]:
            locs, work = set(), [d["place"]["l"]]
            while work:
                l_ = work.pop()
                if l_ in locs:
                    continue
                locs.add(l_)
                for bb2, i2, st2 in cc.statements():
                    if st2["s"] == "assign" and st2["place"] == {"l": l_, "p": []} and st2["rvalue"]["rv"] == "use" and st2["rvalue"]["op"].get("place") and not st2["rvalue"]["op"]["place"]["p"]:
                        work.append(st2["rvalue"]["op"]["place"]["l"])
            for bb2, i2, st2 in cc.statements():
                if st2["s"] == "assign" and not st2["place"]["p"] and st2["place"]["l"] in locs and st2["rvalue"]["rv"] == "use" and st2["rvalue"]["op"].get("k") == "const":
                    for (sb2, c2, o2) in required_outcomes(F, cc, bb2):
                        if not is_next_switch(cc, c2):
                            extra_switches.append(sb2)
    for sb in [x[0] for x in g] + extra_switches:
        for x in deep_origins(cc, cc.blocks[sb].term["discr"]):
            if x.kind == "call":
                ct = cc.blocks[x.data].term
                names.add(callee_decl(ct).rsplit("::", 1)[-1])
                for (k, d) in dep_closure(cc, ct["args"][0]) if ct.get("args") else []:
                    if k == "call":
                        names.add(callee_decl(cc.blocks[d].term).rsplit("::", 1)[-1])
                if any(promoted_variant(cc, a, "Visibility") == "Gained" for a in ct.get("args", [])):
                    gained = True
    ctx.check("is_added" in names and "marker_id" in names, "collect_changes/empty-entity-write/when-replication-started", site_of(cc, bb),
              "the empty record is not forced for an entity that just started replicating (conditions depend on %s)" % sorted(names))
    ctx.check("entity_visibility" in names and gained, "collect_changes/empty-entity-write/when-visibility-gained", site_of(cc, bb),
              "the empty record is not forced for an entity whose visibility was just gained: an entity without replicated components that becomes visible is never delivered "
              "(conditions depend on %s)" % sorted(names))
