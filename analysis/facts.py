"""Loading of the driver's JSON facts and the per-function program representation:
normal-flow CFG, dominators, post-dominators, loops, edge-removal reachability."""
import json
import os
from functools import lru_cache


class Block:
    __slots__ = ("idx", "stmts", "term", "cleanup")

    def __init__(self, idx, j):
        self.idx = idx
        self.stmts = j["stmts"]
        self.term = j["term"] or {"t": "none"}
        self.cleanup = j["cleanup"]


def place_is_local(p):
    return not p["p"]


def op_place(op):
    return op.get("place") if op.get("k") in ("copy", "move") else None


def callee_name(term):
    """Best name for the callee of a call terminator: the resolved instance when the
    driver could resolve it, else the declared (possibly trait) item."""
    c = term.get("callee") or {}
    return c.get("resolved") or c.get("path") or ""


def callee_decl(term):
    c = term.get("callee") or {}
    return c.get("path") or ""


def strip_generics(path):
    """`a::B::<T>::c` / `<impl X>::y` normalisation helper: removes `::<...>` groups."""
    out = []
    depth = 0
    i = 0
    while i < len(path):
        ch = path[i]
        if ch == "<" and out[-2:] == [":", ":"] :
            depth += 1
            # drop the preceding '::'
            out = out[:-2]
        elif depth and ch == "<":
            depth += 1
        elif depth and ch == ">":
            depth -= 1
        elif not depth:
            out.append(ch)
        i += 1
    return "".join(out)


class Body:
    """A MIR body (function, closure, const, or promoted)."""

    def __init__(self, path, j, crate, parent=None):
        self.path = path
        self.crate = crate
        self.j = j
        self.parent = parent
        self.kind = j.get("kind", "Promoted")
        self.vis = j.get("vis")
        self.span = j.get("span", "")
        self.end_line = j.get("end_line")
        self.macros = j.get("macros", [])
        self.arg_count = j["arg_count"]
        self.locals = j["locals"]
        self.blocks = [Block(i, b) for i, b in enumerate(j["blocks"])]
        self.promoted = [Body("%s::promoted[%d]" % (path, i), pj, crate, parent=self)
                         for i, pj in enumerate(j.get("promoted", []))]
        self._build_cfg()

    # ------------------------------------------------------------------ CFG
    def _build_cfg(self):
        n = len(self.blocks)
        self.succ = [[] for _ in range(n)]  # list of (target, label)
        for b in self.blocks:
            if b.cleanup:
                continue
            t = b.term
            k = t["t"]
            if k == "call":
                if t["target"] is not None:
                    self.succ[b.idx].append((t["target"], "ret"))
            elif k == "switch":
                for v, tb in t["targets"]:
                    self.succ[b.idx].append((tb, v))
                self.succ[b.idx].append((t["otherwise"], "otherwise"))
            elif k in ("assert", "goto", "drop"):
                self.succ[b.idx].append((t["target"], "next"))
        # edges into `unreachable` blocks are infeasible (exhaustive-match fall-through)
        dead = {b.idx for b in self.blocks if b.term["t"] == "unreachable"}
        for a in range(n):
            self.succ[a] = [(t, lab) for (t, lab) in self.succ[a] if t not in dead]
        self.pred = [[] for _ in range(n)]
        for a in range(n):
            for (t, lab) in self.succ[a]:
                self.pred[t].append((a, lab))
        self.reach = self._reach_from(0, ())
        self.idom = self._dominators()
        self._pdom = None
        self._loops = None
        self._bev = None

    def _reach_from(self, start, removed):
        removed = set(removed)
        seen = {start}
        work = [start]
        while work:
            a = work.pop()
            for (t, lab) in self.succ[a]:
                if (a, t, lab) in removed or (a, t) in removed:
                    continue
                if t not in seen:
                    seen.add(t)
                    work.append(t)
        return seen

    def _bool_events(self, extra=()):
        """Per block: updates to boolean locals that only ever hold constants or copies of such locals.
        Used to prune paths that contradict an earlier `flag = true/false` (e.g. `let c = a || b; if c {..}`)."""
        cache = getattr(self, "_bev", None) or {}
        key = frozenset(extra)
        if key in cache:
            return cache[key]
        tracked = set(extra)
        for b in self.blocks:
            for st in b.stmts:
                if st["s"] == "assign" and not st["place"]["p"] and self.locals[st["place"]["l"]]["ty"] == "bool":
                    rv = st["rvalue"]
                    if rv["rv"] == "use" and rv["op"].get("k") == "const" and "val" in rv["op"]:
                        tracked.add(st["place"]["l"])
        changed = True
        while changed:
            changed = False
            for b in self.blocks:
                for st in b.stmts:
                    if st["s"] == "assign" and not st["place"]["p"] and self.locals[st["place"]["l"]]["ty"] == "bool":
                        rv = st["rvalue"]
                        if rv["rv"] == "use" and rv["op"].get("k") in ("copy", "move") and not rv["op"]["place"]["p"] \
                                and rv["op"]["place"]["l"] in tracked and st["place"]["l"] not in tracked:
                            tracked.add(st["place"]["l"])
                            changed = True
        ev = {}
        for b in self.blocks:
            lst = []
            for st in b.stmts:
                if st["s"] == "assign" and not st["place"]["p"] and st["place"]["l"] in tracked:
                    rv = st["rvalue"]
                    l = st["place"]["l"]
                    if rv["rv"] == "use" and rv["op"].get("k") == "const" and "val" in rv["op"]:
                        lst.append(("set", l, 1 if rv["op"]["val"] else 0))
                    elif rv["rv"] == "use" and rv["op"].get("k") in ("copy", "move") and not rv["op"]["place"]["p"]:
                        lst.append(("copy", l, rv["op"]["place"]["l"]))
                    else:
                        lst.append(("unset", l, None))
            t = b.term
            if t["t"] == "call" and t.get("dest") and not t["dest"]["p"] and t["dest"]["l"] in tracked:
                lst.append(("unset", t["dest"]["l"], None))
            ev[b.idx] = lst
        cache[key] = (tracked, ev)
        self._bev = cache
        return cache[key]

    def reachable_avoiding(self, target, removed_edges, start=0, removed_blocks=(), assume=None):
        """Is `target` reachable from `start` when the given edges (a,t) or (a,t,label) and blocks are removed from the
        normal-flow CFG? Paths are pruned by the known value of constant-assigned boolean locals (a switch on a flag
        that was just set to a constant follows only the matching edge). `assume` fixes the value (0/1) of boolean
        locals (e.g. parameters) for the query."""
        removed = set(removed_edges)
        rb = set(removed_blocks)
        if start in rb:
            return False
        assume = assume or {}
        tracked, ev = self._bool_events(tuple(sorted(assume)))
        if not tracked:
            seen = {start}
            work = [start]
            while work:
                a = work.pop()
                if a == target:
                    return True
                for (t, lab) in self.succ[a]:
                    if (a, t, lab) in removed or (a, t) in removed or t in rb:
                        continue
                    if t not in seen:
                        seen.add(t)
                        work.append(t)
            return target in seen
        init = (start, frozenset(assume.items()))
        seen = {init}
        work = [init]
        n = 0
        while work:
            a, known = work.pop()
            n += 1
            if a == target:
                return True
            if n > 200000:
                return True  # give up pruning: stay conservative (reachable)
            k = dict(known)
            for (what, l, v) in ev.get(a, ()):
                if what == "set":
                    k[l] = v
                elif what == "copy":
                    if v in k:
                        k[l] = k[v]
                    else:
                        k.pop(l, None)
                else:
                    k.pop(l, None)
            succs = self.succ[a]
            term = self.blocks[a].term
            if term["t"] == "switch" and term.get("discr_ty") == "bool":
                pl = term["discr"].get("place")
                if pl and not pl["p"] and pl["l"] in k:
                    val = k[pl["l"]]
                    listed = [x for x, _ in term["targets"]]
                    if val in listed:
                        succs = [(t, lab) for (t, lab) in succs if lab == val]
                    else:
                        succs = [(t, lab) for (t, lab) in succs if lab == "otherwise"]
            nk = frozenset(k.items())
            for (t, lab) in succs:
                if (a, t, lab) in removed or (a, t) in removed or t in rb:
                    continue
                stt = (t, nk)
                if stt not in seen:
                    seen.add(stt)
                    work.append(stt)
        return False

    def _dominators(self):
        # Cooper-Harvey-Kennedy on reverse post-order
        order = []
        seen = set()

        def dfs(s):
            stack = [(s, iter(self.succ[s]))]
            seen.add(s)
            while stack:
                node, it = stack[-1]
                adv = False
                for (t, _) in it:
                    if t not in seen:
                        seen.add(t)
                        stack.append((t, iter(self.succ[t])))
                        adv = True
                        break
                if not adv:
                    order.append(node)
                    stack.pop()

        dfs(0)
        rpo = list(reversed(order))
        self.rpo = rpo
        num = {b: i for i, b in enumerate(rpo)}
        idom = {0: 0}

        def intersect(a, b):
            while a != b:
                while num[a] > num[b]:
                    a = idom[a]
                while num[b] > num[a]:
                    b = idom[b]
            return a

        changed = True
        while changed:
            changed = False
            for b in rpo[1:]:
                ps = [p for (p, _) in self.pred[b] if p in idom]
                if not ps:
                    continue
                new = ps[0]
                for p in ps[1:]:
                    new = intersect(p, new)
                if idom.get(b) != new:
                    idom[b] = new
                    changed = True
        return idom

    def dominates(self, a, b):
        """block a dominates block b (reflexive)."""
        if b not in self.idom or a not in self.idom:
            return False
        while True:
            if a == b:
                return True
            nb = self.idom[b]
            if nb == b:
                return False
            b = nb

    def exits(self):
        return [b.idx for b in self.blocks if not b.cleanup and b.idx in self.reach and b.term["t"] in ("return", "tailcall")]

    def postdominates(self, a, b):
        """Every normal path from b to a return passes through a (diverging paths ignored)."""
        if a == b:
            return True
        # b can reach an exit without going through a?
        for e in self.exits():
            if self.reachable_avoiding(e, (), start=b, removed_blocks=(a,)):
                return False
        return True

    def loops(self):
        """Natural loops: list of (header, set(body blocks))."""
        if self._loops is not None:
            return self._loops
        res = {}
        for a in self.reach:
            for (t, _) in self.succ[a]:
                if self.dominates(t, a):  # back edge a -> t
                    body = res.setdefault(t, {t})
                    work = [a]
                    while work:
                        x = work.pop()
                        if x in body:
                            continue
                        body.add(x)
                        for (p, _) in self.pred[x]:
                            if p in self.reach:
                                work.append(p)
        self._loops = sorted(res.items())
        return self._loops

    def loops_containing(self, bb):
        return [(h, body) for (h, body) in self.loops() if bb in body]

    # ------------------------------------------------------------ iteration
    def calls(self):
        """Yields (bb, term) for every call terminator in reachable normal-flow blocks."""
        for b in self.blocks:
            if b.cleanup or b.idx not in self.reach:
                continue
            if b.term["t"] in ("call", "tailcall"):
                yield b.idx, b.term

    def calls_to(self, pred):
        """pred: substring, or callable(name, term) -> bool."""
        for bb, t in self.calls():
            name = callee_name(t)
            decl = callee_decl(t)
            if callable(pred):
                if pred(name, t) or (decl != name and pred(decl, t)):
                    yield bb, t
            elif pred in name or pred in decl:
                yield bb, t

    def statements(self):
        for b in self.blocks:
            if b.cleanup or b.idx not in self.reach:
                continue
            for i, s in enumerate(b.stmts):
                yield b.idx, i, s

    def local_ty(self, l):
        return self.locals[l]["ty"]

    def local_name(self, l):
        return self.locals[l].get("name")

    def line_of(self, bb):
        sp = self.blocks[bb].term.get("span", "")
        return sp

    def __repr__(self):
        return "<Body %s>" % self.path


class Facts:
    def __init__(self, facts_dir, crates=("bevy_replicon", "bevy_replicon_example_backend")):
        self.dir = facts_dir
        self.fns = {}
        self.adts = {}
        self.impls = []
        self.meta = {}
        for c in crates:
            p = os.path.join(facts_dir, c + ".json")
            if not os.path.exists(p):
                continue
            j = json.load(open(p))
            self.meta[c] = {k: j[k] for k in ("features", "debug_assertions", "overflow_checks")}
            for path, fj in j["fns"].items():
                self.fns[path] = Body(path, fj, c)
            for path, aj in j["adts"].items():
                aj["crate"] = c
                self.adts[path] = aj
            for ij in j["impls"]:
                ij["crate"] = c
                self.impls.append(ij)
        self._callers = None

    def fn(self, path):
        return self.fns[path]

    def get(self, path):
        return self.fns.get(path)

    def find(self, suffix, crate=None):
        """All bodies whose path ends with `suffix` (on a `::` boundary)."""
        out = []
        for p, b in self.fns.items():
            if crate and b.crate != crate:
                continue
            if p == suffix or p.endswith("::" + suffix):
                out.append(b)
        return out

    def one(self, suffix, crate=None):
        r = self.find(suffix, crate)
        if len(r) != 1:
            raise KeyError("expected exactly one function matching %r, found %d: %s" % (suffix, len(r), [b.path for b in r][:5]))
        return r[0]

    def closures_of(self, path):
        return [b for p, b in self.fns.items() if b.kind == "Closure" and b.j.get("closure_root") == path]

    def real_fns(self):
        return [b for b in self.fns.values() if b.kind in ("Fn", "AssocFn", "Closure")]

    def with_closures(self, body):
        return [body] + self.closures_of(body.path)

    def adt_fields(self, adt_path):
        a = self.adts.get(adt_path)
        if not a:
            return None
        return a["variants"][0]["fields"]

    def variant_name(self, adt_path, idx):
        a = self.adts.get(adt_path)
        if a:
            for v in a["variants"]:
                if v["idx"] == idx:
                    return v["name"]
        std = {
            "core::option::Option": ["None", "Some"],
            "core::result::Result": ["Ok", "Err"],
            "core::ops::ControlFlow": ["Continue", "Break"],
            "core::ops::control_flow::ControlFlow": ["Continue", "Break"],
            "core::cmp::Ordering": None,
        }
        names = std.get(adt_path)
        if names and 0 <= idx < len(names):
            return names[idx]
        return None
