"""Two-way self-test: seeded mutants (small patches under /verif/selftest/mutants/<prop>/) are applied to a
scratch copy of the current /repo outside /repo and /verif, facts are re-extracted there, and the property's
rules must report the instance named in the patch header (`# expect: <key substring>`). A patch that no
longer applies is skipped (and listed); a mutant that applies and is not reported is a checker error."""
import glob
import os
import shutil
import subprocess
import sys
import tempfile
from concurrent.futures import ThreadPoolExecutor

HERE = os.path.dirname(os.path.abspath(__file__))
VERIF = os.path.dirname(HERE)
sys.path.insert(0, HERE)
import extract  # noqa: E402


def parse_header(path):
    exp, desc = [], ""
    for line in open(path):
        if line.startswith("# expect:"):
            exp.append(line.split(":", 1)[1].strip())
        elif line.startswith("# desc:"):
            desc = line.split(":", 1)[1].strip()
        elif not line.startswith("#"):
            break
    return exp, desc


def make_scratch(patch, base_repo=None):
    base_repo = base_repo or extract.REPO
    tmp = tempfile.mkdtemp(prefix="replicon-mutant-")
    dst = os.path.join(tmp, "repo")
    subprocess.check_call(["rsync", "-a", "--exclude", "target", "--exclude", ".git", base_repo + "/", dst + "/"])
    r = subprocess.run(["patch", "-p1", "--no-backup-if-mismatch", "-s", "-f", "-i", patch], cwd=dst, capture_output=True, text=True)
    if r.returncode != 0:
        shutil.rmtree(tmp, ignore_errors=True)
        return None, None, (r.stdout + r.stderr)[-500:]
    return tmp, dst, ""


def run_mutant(prop, patch, config="default"):
    """-> dict(status = detected | missed | skipped | broken, ...)"""
    import engine
    expects, desc = parse_header(patch)
    tmp, dst, err = make_scratch(patch)
    name = os.path.basename(patch)
    if tmp is None:
        return {"mutant": name, "status": "skipped", "why": "patch does not apply to the current tree: " + err}
    try:
        try:
            d, info = extract.ensure_facts(config, repo=dst)
        except extract.ExtractError as e:
            return {"mutant": name, "status": "broken", "why": "mutant does not compile: " + str(e)[-800:]}
        instances, errs = engine.run_rules(prop, d, config)
        if errs:
            return {"mutant": name, "status": "broken", "why": "rule crashed on mutant: " + errs[0][-800:]}
        bad = sorted({i["key"] for i in instances if not i["ok"]})
        hit = [k for k in bad if any(e in k for e in expects)] if expects else bad
        return {"mutant": name, "desc": desc, "status": "detected" if hit else "missed", "reported": bad[:8], "expected": expects}
    finally:
        shutil.rmtree(tmp, ignore_errors=True)


def _run_mutant_job(a):
    return run_mutant(*a)


def _pool_map(fn, jobs):
    """Extraction is serialised by a file lock (shared dependency cache); rule evaluation runs in parallel worker processes."""
    import multiprocessing
    n = min(len(jobs), int(os.environ.get("VERIF_JOBS", "0")) or max(1, min(8, (os.cpu_count() or 2) // 2)))
    if n <= 1:
        return [fn(j) for j in jobs]
    with multiprocessing.get_context("fork").Pool(n) as pool:
        return pool.map(fn, jobs, chunksize=1)


def run_for_property(prop, config="default"):
    patches = sorted(glob.glob(os.path.join(VERIF, "selftest", "mutants", prop, "*.diff")))
    results = _pool_map(_run_mutant_job, [(prop, p, config) for p in patches])
    failed = ["%s: %s (%s)" % (r["mutant"], r["status"], r.get("why") or r.get("reported")) for r in results if r["status"] in ("missed", "broken")]
    return {"mutants": len(patches), "detected": sum(r["status"] == "detected" for r in results),
            "skipped": [r["mutant"] for r in results if r["status"] == "skipped"], "failed": failed, "results": results}


def _run_benign_job(a):
    import engine
    patch, config, props, known = a
    tmp, dst, err = make_scratch(patch)
    name = os.path.basename(patch)
    if tmp is None:
        return {"refactor": name, "status": "skipped", "why": err}
    try:
        try:
            d, info = extract.ensure_facts(config, repo=dst)
        except extract.ExtractError as e:
            return {"refactor": name, "status": "broken", "why": str(e)[-600:]}
        alarms = []
        for p in props:
            inst, errs = engine.run_rules(p, d, config)
            alarms += ["CRASH " + e[:300] for e in errs]
            alarms += [i["key"] + " :: " + str(i.get("msg"))[:200] for i in inst if not i["ok"] and i["key"] not in known]
        return {"refactor": name, "status": "silent" if not alarms else "FALSE-ALARM", "alarms": alarms}
    finally:
        shutil.rmtree(tmp, ignore_errors=True)


def run_benign(config="default"):
    """Behaviour-preserving refactors: every property's rules must stay silent (known findings excepted)."""
    import engine
    props = sorted(os.path.basename(p)[:-3] for p in glob.glob(os.path.join(HERE, "rules", "C*.py")))
    known = {k["key"] for k in engine.load_known() if k.get("status") == "known"}
    patches = sorted(glob.glob(os.path.join(VERIF, "selftest", "mutants", "benign", "*.diff")))
    return _pool_map(_run_benign_job, [(p, config, props, known) for p in patches])


if __name__ == "__main__":
    import json
    if sys.argv[1] == "--benign":
        res = run_benign()
        for r in res:
            print(r["refactor"], r["status"])
            for a in r.get("alarms", []) or ([r["why"]] if r.get("why") else []):
                print("     ", a)
        sys.exit(1 if any(r["status"] not in ("silent", "skipped") for r in res) else 0)
    prop = sys.argv[1]
    if len(sys.argv) > 2:
        print(json.dumps(run_mutant(prop, os.path.abspath(sys.argv[2])), indent=1))
    else:
        print(json.dumps(run_for_property(prop), indent=1))


def run_patch_all(patch, config="default"):
    """Applies one patch to a scratch copy and runs every property's rules: -> {prop: [violation keys]}"""
    import engine
    props = sorted(os.path.basename(p)[:-3] for p in glob.glob(os.path.join(HERE, "rules", "C*.py")))
    known = {k["key"] for k in engine.load_known() if k.get("status") == "known"}
    tmp, dst, err = make_scratch(patch)
    if tmp is None:
        return {"error": "patch does not apply: " + err}
    try:
        try:
            d, info = extract.ensure_facts(config, repo=dst)
        except extract.ExtractError as e:
            return {"error": "does not compile: " + str(e)[-800:]}
        out = {}
        for p in props:
            inst, errs = engine.run_rules(p, d, config)
            v = sorted({i["key"] for i in inst if not i["ok"] and i["key"] not in known})
            if errs:
                v.append("CRASH " + errs[0][-300:])
            if v:
                out[p] = v
        return out
    finally:
        shutil.rmtree(tmp, ignore_errors=True)
