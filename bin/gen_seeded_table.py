#!/usr/bin/env python3
"""Regenerates the table of independently seeded changes in DESIGN.md section 8.2 from seeded/*/meta.json."""
import glob, json, os, re
V = os.path.join(os.path.dirname(os.path.abspath(__file__)), "..")
rows = ["| id | property | change (one line) | needs to manifest | confirmed (base commit; demo clean / patched; suite) | first run | reported by (now) |", "|----|----|----|----|----|----|----|"]
FIRST = json.load(open(os.path.join(V, "seeded", "first_run.json")))
def one(s, n):
    s = " ".join((s or "").split())
    return s if len(s) <= n else s[:n - 1].rsplit(" ", 1)[0] + " …"
for f in sorted(glob.glob(os.path.join(V, "seeded", "*", "meta.json"))):
    m = json.load(open(f))
    c = m["confirmed_by_me"]
    r = c.get("result") or {}
    rep = m.get("reported_by") or {}
    keys = []
    for p in sorted(rep):
        keys += rep[p]
    keys = sorted(set(k.split("/", 1)[0] + "/" + k.split("/", 1)[1].rsplit("/", 1)[-1] if False else k for k in keys))
    if len(keys) > 4:
        shown = ", ".join("`%s`" % k for k in keys[:4]) + " (+%d more)" % (len(keys) - 4)
    else:
        shown = ", ".join("`%s`" % k for k in keys)
    if not keys:
        shown = "**none** — " + one(m.get("note", ""), 400)
    fr = FIRST.get(m["id"], ["?", ""])
    rows.append("| %s | %s | %s | %s | %s; %s / %s; %s | **%s** — %s | %s |" % (
        m["id"], m["property"], one(m["summary"], 200), one(m["needs_to_manifest"], 160),
        c["repo_commit"], r.get("demo_exit_unchanged"), r.get("demo_exit_with_patch"), r.get("suite_passed_failed"), fr[0], fr[1], shown))
text = "\n".join(rows)
p = os.path.join(V, "DESIGN.md")
s = open(p).read()
if "SEEDED_TABLE_PLACEHOLDER" in s:
    s = s.replace("SEEDED_TABLE_PLACEHOLDER", "<!-- SEEDED_TABLE_BEGIN -->\n<!-- SEEDED_TABLE_END -->")
a = s.index("<!-- SEEDED_TABLE_BEGIN -->") + len("<!-- SEEDED_TABLE_BEGIN -->")
b = s.index("<!-- SEEDED_TABLE_END -->")
s = s[:a] + "\n" + text + "\n" + s[b:]
open(p, "w").write(s)
from collections import Counter
cnt = Counter()
for k, v in FIRST.items():
    if not k.startswith("_"):
        cnt[(k[-1], v[0])] += 1
print(len(rows) - 2, "seeded changes;", dict(cnt))
