#!/usr/bin/env python3
"""Regenerates the per-property rule lists of DESIGN.md section 4a (between '#### C01' and '## 5.') from the rule modules."""
import importlib, os, re, sys
V = os.path.join(os.path.dirname(os.path.abspath(__file__)), "..")
sys.path.insert(0, os.path.join(V, "analysis"))
sys.path.insert(0, os.path.join(V, "selftest"))
import specs
out = []
for n in range(1, 19):
    pid = "C%02d" % n
    m = importlib.import_module("rules." + pid)
    out.append("#### %s\n" % pid)
    for r in m.RULES:
        rid, desc, fn, floor, cfgs = r[:5]
        out.append("* **%s** — %s (floor %d%s)" % (rid, desc, floor, ", configs " + "/".join(cfgs) if cfgs else ""))
    nd = getattr(m, "NOT_DECIDED", None)
    if nd:
        out.append("* *not decided:* " + nd)
    muts = sorted(x["name"] for x in specs.MUTANTS if x["prop"] == pid)
    out.append("* *self-test mutants (%d):* %s" % (len(muts), ", ".join(muts)))
    out.append("")
text = "\n".join(out)
p = os.path.join(V, "DESIGN.md")
s = open(p).read()
a = s.index("#### C01\n")
b = s.index("## 5. Defects found")
s = s[:a] + text + "\n" + s[b:]
open(p, "w").write(s)
print("section 4a regenerated: %d mutants, %d benign" % (len(specs.MUTANTS), len(specs.BENIGN)))
