"""Unconditional mutators (shared table, one rule per property that owns entries).

Small state-mutating entry points whose *whole point* is one effect: recording a pair, a range, a tick, a message. The properties
rely on that effect happening on every call (the caller has already decided that it must happen); the only admissible reasons for
not performing it are listed per entry (e.g. `the transport is not connected`). A new early return in such a function - an
`optimisation` for a case that `cannot matter` - silently drops a record. For every entry: the effect exists, every normal exit is
preceded by it, and the conditions on the way to it are within the allowed set.

Each entry was confirmed by reading the function; the reason says why the effect may never be skipped."""
from engine import site_of
from facts import callee_decl
from flow import tracer, short, required_outcomes, is_next_switch, dep_closure, deep_origins

PUSHY = ("push", "push_back", "push_front", "insert", "extend", "extend_from_slice", "append", "entry", "remove", "send", "send_batch")

# (properties, function suffix, effect kind, field (of self) or callee suffix, allowed guards (boolcall callee suffix / field name: outcome), reason)
TABLE = [
    (("C03",), "replication_messages::updates::Updates::add_removals", "call-on-field", "removals", (),
     "a removal record the caller decided to write must reach the message"),
    (("C03",), "replication_messages::updates::Updates::add_changed_entity", "call-on-field", "changes", (),
     "the entity header precedes its components; skipping it attributes them to the previous entity"),
    (("C03", "C07"), "replication_messages::updates::Updates::add_inserted_component", "call", "ChangeRanges::add_component", (),
     "an inserted component the caller serialised must be referenced by the message"),
    (("C16",), "replication_messages::updates::Updates::set_mappings", "assign", "mappings", (),
     "the mappings section of the message is this range"),
    (("C10", "C11"), "replication_messages::mutations::Mutations::add_entity", "call-on-field", ("related", "standalone"), (),
     "a mutated entity must be recorded in its group (or as standalone) to be sent and acknowledged"),
    (("C10", "C11"), "replication_messages::mutations::Mutations::add_component", "call", "ChangeRanges::add_component", (),
     "a mutated component the caller serialised must be referenced by the message"),
    (("C01", "C11", "C02"), "client_ticks::ClientTicks::set_mutation_tick", "call-on-field", "mutation_ticks", (),
     "the baseline bump after a structural change keeps entity updates atomic"),
    (("C01", "C08"), "client_ticks::ClientTicks::remove_entity", "call-on-field", "mutation_ticks", (),
     "a despawned / lost entity must not keep a baseline (a reused id or regained visibility would be sent as mutations)"),
    (("C04",), "client_ticks::ClientTicks::set_update_tick", "assign", "update_tick", (),
     "events are stamped with this tick"),
    (("C05", "C04"), "server_event::BufferedServerEvents::insert", "call-on-field", "events", (),
     "a dependent event that is not buffered is never sent"),
    (("C04", "C05"), "client_event_queue::ClientEventQueue::<E>::insert", "call-on-field", "map", (),
     "an event that is ahead of the update tick and not queued is lost"),
    (("C09", "C13"), "replicon_client::RepliconClient::send", "call-on-field", "sent_messages", ("is_connected:True",),
     "while connected every message handed to the transport is queued"),
    (("C09",), "replicon_client::RepliconClient::insert_received", "call-on-field", "received_messages", ("is_connected:True",),
     "while connected every received message is handed to the library"),
    (("C09", "C07"), "replicon_server::RepliconServer::send", "call-on-field", "sent_messages", ("running:True",),
     "while running every message handed to the transport is queued"),
    (("C09", "C06"), "replicon_server::RepliconServer::insert_received", "call-on-field", "received_messages", ("running:True",),
     "while running every received message is handed to the library"),
]


def _effect_sites(body, kind, what):
    tr = tracer(body)
    sites = []
    names = what if isinstance(what, tuple) else (what,)
    if kind == "call":
        for bb, t in body.calls():
            if any(callee_decl(t).endswith(n) for n in names):
                sites.append(bb)
    elif kind == "call-on-field":
        for bb, t in body.calls():
            m = callee_decl(t).rsplit("::", 1)[-1]
            if m in PUSHY and t.get("args"):
                hit = any(any(e[0] == "f" and e[2] in names for e in o.path) for o in tr.operand(t["args"][0]))
                if not hit and m in ("push", "push_back", "extend", "insert"):
                    # the receiver is reached through a lookup on the field: self.field.get_mut(i)...push(x) / entry(k).or_insert_with(..).push(x)
                    for (k, d) in dep_closure(body, t["args"][0]):
                        if k == "call":
                            ct = body.blocks[d].term
                            if ct.get("args") and any(any(e[0] == "f" and e[2] in names for e in o.path) for o in tr.operand(ct["args"][0])):
                                hit = True
                if hit:
                    sites.append(bb)
    elif kind == "assign":
        for bb, i, st in body.statements():
            if st["s"] == "assign" and st["place"]["p"]:
                last = st["place"]["p"][-1]
                if isinstance(last, dict) and last.get("name") in names:
                    sites.append(bb)
    return sorted(set(sites))


def _guard_name(body, c, o):
    tr = tracer(body)
    outs = sorted(map(str, o))
    if c["kind"] == "boolcall":
        return "%s:%s" % (c["name"].rsplit("::", 1)[-1], outs[0] if len(outs) == 1 else outs)
    names = set()
    for key in ("place",):
        if key in c:
            for x in tr.place(c[key]):
                for e in x.path:
                    if e[0] == "f":
                        names.add(e[2])
    if not names and c.get("site") and c["site"][0] == "stmt":
        pass
    if not names:
        try:
            sw = body.blocks[c["sbb"]].term if "sbb" in c else None
        except Exception:
            sw = None
    if c["kind"] in ("bool", "expr", "local") or names:
        return "%s:%s" % ("/".join(sorted(names)) or c["kind"], outs[0] if len(outs) == 1 else outs)
    return "%s:%s" % (c["kind"], outs)


def run_for(ctx, prop):
    F = ctx.F
    n = 0
    for (props, suffix, kind, what, allowed, reason) in TABLE:
        if prop not in props:
            continue
        found = F.find(suffix)
        if len(found) != 1:
            if ctx.config in ("server-only", "client-only") and not found:
                continue  # compiled out in this configuration
            ctx.bad("%s/anchor" % suffix.rsplit("::", 2)[-2:][0], "", "mutator `%s` not found uniquely (%d)" % (suffix, len(found)), kind="anchor-missing")
            continue
        b = found[0]
        n += 1
        name = "::".join(b.path.rsplit("::", 2)[-2:])
        sites = _effect_sites(b, kind, what)
        if not ctx.check(bool(sites), "%s/effect" % name, site_of(b), "the effect (%s %s) was not found" % (kind, what)):
            continue
        extra = set()
        for sb in sites:
            for (s_, c, o) in required_outcomes(F, b, sb):
                if is_next_switch(b, c):
                    continue
                g = _guard_name(b, c, o)
                if g.split(":")[0] in ("expr", "bool", "local"):
                    fields = sorted({e[2] for x in deep_origins(b, b.blocks[s_].term["discr"]) for e in x.path if e[0] == "f" and e[2]})
                    calls = sorted({callee_decl(b.blocks[x.data].term).rsplit("::", 1)[-1] for x in deep_origins(b, b.blocks[s_].term["discr"]) if x.kind == "call"})
                    if fields or calls:
                        g = "%s:%s" % ("/".join(fields + calls), g.split(":", 1)[1])
                if not any(g == a or g.split(":")[0].endswith(a.split(":")[0]) and g.split(":")[1] == a.split(":")[1] for a in allowed):
                    extra.add(g)
        skipping = [e for e in b.exits() if b.reachable_avoiding(e, (), removed_blocks=tuple(sites))]
        # exits that avoid the effect are fine only behind an allowed guard (then `extra` is empty and the guard is the only way round)
        ok = (not skipping) or (bool(allowed) and not extra)
        ctx.check(ok, "%s/always-performs-its-effect" % name, site_of(b, sites[0]),
                  "`%s` can return without %s (conditions met on the way: %s; allowed: %s): %s" % (
                      name, "its effect on `%s`" % (what,), sorted(extra) or "-", list(allowed) or "none", reason),
                  reason)
    return n
