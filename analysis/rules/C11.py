"""C11 - Acknowledged data is not re-sent and an idle server is silent."""
import re

from engine import site_of
from facts import callee_decl, callee_name
from flow import tracer, short, required_outcomes, dep_closure, switch_cond, edge_outcome, deep_origins, is_next_switch

EXPLANATION = (
    "R1: the predicates that gate Updates::send / Mutations::send in send_messages look at content, not capacity - no "
    "emptiness/length test on the outer level of a nested Vec<Vec<_>>; the mutate message is sent only on the non-empty edge "
    "or under the tracking flag; Updates::is_empty, Updates::flags and the sections Updates::send serialises range over the "
    "same containers. R2: in ClientTicks::ack_mutate_message every store into a per-entity mutation tick stores the tick "
    "recorded for the acknowledged message, only on the `Some` edge of the in-flight lookup and only when the stored tick is "
    "not newer. R3: closed classification of every writer of ClientTicks.mutation_ticks (setter with the system's this_run, "
    "ack, remover); the field is private. R4: the client acknowledges exactly the mutate messages it has consumed: the acknowledgement "
    "write sits behind the `message.update_tick <= current update tick` test, carries the index decoded from that message, is reached on every path on which the "
    "message leaves the buffer, and the collected buffer is sent once, after consuming, outside loops. R5: an acknowledgement covers exactly the entities whose data "
    "travelled in that message (C10.R1). R6: the recycled entity lists behind the acknowledgement table are empty when reused. R7: message indices restart with every connection, so the buffer of waiting mutate messages is emptied unconditionally when the client disconnects - a message buffered in one connection is never consumed (and acknowledged) in the next.")
NOT_DECIDED = "re-send liveness (a mutation keeps being re-sent every tick until acknowledged) over arbitrary loss patterns; traffic at rest as a quantity"
TRUSTED_BASE = ["bevy_ecs::component::Tick::is_newer_than", "hash-map remove/get_mut contracts"]

TICKS = "bevy_replicon::shared::replication::client_ticks::ClientTicks"
MUT = "bevy_replicon::server::replication_messages::mutations::Mutations"
UPD = "bevy_replicon::server::replication_messages::updates::Updates"


_F = [None]


def _self_fields(body, op):
    from flow import resolve_through_closure
    tr = tracer(body)
    out = set()
    origins = tr.operand(op)
    if body.kind == "Closure" and _F[0] is not None:
        origins = {o for (_, o) in resolve_through_closure(_F[0], body, origins)}
    for o in origins:
        for e in o.path:
            if e[0] == "f" and e[3]:
                out.add((e[3], e[2]))
    return out


def _nested_vec(ty):
    return bool(re.search(r"Vec<\s*(alloc::vec::)?Vec<", ty)) or bool(re.search(r"\[\s*alloc::vec::Vec<", ty))


def r1_send_gates(ctx):
    F = ctx.F
    _F[0] = F
    sm = ctx.fn("server::send_messages")
    tr = tracer(sm)
    for adt, label in ((MUT, "Mutations"), (UPD, "Updates")):
        sends = [(bb, t) for bb, t in sm.calls() if callee_decl(t) == adt + "::send"]
        if len(sends) != 1:
            ctx.bad("send_messages/%s::send" % label, site_of(sm), "expected one %s::send call, found %d" % (label, len(sends)), kind="anchor-missing")
            continue
        sbb, st = sends[0]
        recv = tr.operand(st["args"][0])
        preds = []
        for bb, t in sm.calls():
            d = callee_decl(t)
            if d.startswith(adt + "::") and bb != sbb and sm.dominates(bb, sbb) and tr.operand(t["args"][0]) == recv \
                    and (F.fns.get(d) and F.fns[d].j.get("output") == "bool"):
                preds.append((bb, d))
        if not preds:
            ctx.bad("send_messages/%s-gate" % label, site_of(sm, sbb), "%s::send is not gated by a predicate on the same client's buffer" % label)
            continue
        # the send is reachable only through the "not empty" edge of the predicate (or, for mutations, the tracking flag)
        allowed = []
        for pbb, pd in preds:
            for b in sm.blocks:
                if b.idx in sm.reach and b.term["t"] == "switch":
                    c = switch_cond(sm, b.idx)
                    if c["kind"] == "boolcall" and c["bb"] == pbb:
                        for (tb, lab) in sm.succ[b.idx]:
                            if edge_outcome(F, sm, b.idx, lab, c) is False:
                                allowed.append((b.idx, tb, lab))
        flag_edges = []
        if label == "Mutations":
            flags = [i for i in range(1, sm.arg_count + 1) if sm.locals[i]["ty"] == "bool"]
            for b in sm.blocks:
                if b.idx in sm.reach and b.term["t"] == "switch":
                    o = tr.operand(b.term["discr"])
                    if o and all(x.kind == "param" and x.data in flags for x in o):
                        c = switch_cond(sm, b.idx)
                        for (tb, lab) in sm.succ[b.idx]:
                            if edge_outcome(F, sm, b.idx, lab, c) is True:
                                flag_edges.append((b.idx, tb, lab))
        assume = {}
        if label == "Mutations":
            assume = {i: 0 for i in range(1, sm.arg_count + 1) if sm.locals[i]["ty"] == "bool"}
        only = not sm.reachable_avoiding(sbb, allowed, assume=assume)
        ctx.check(only and allowed, "send_messages/%s-sent-only-when-non-empty" % label, site_of(sm, sbb),
                  "%s::send is reachable without passing the non-empty edge of its emptiness predicate%s: an idle server would keep sending" % (
                      label, " or the tracking flag" if label == "Mutations" else ""),
                  "gated by %s (false edge)%s" % ([short(p[1]) for p in preds], " or tracking flag" if assume else ""))
        # the predicate must look at content, not at the outer length of a nested container
        for pbb, pd in preds:
            pb = F.fns[pd]
            ptr = tracer(pb)
            tested = set()
            for b in F.with_closures(pb):
                for bb, t in b.calls():
                    d = callee_decl(t)
                    m = d.rsplit("::", 1)[-1]
                    if t["args"] and m in ("iter", "into_iter", "all", "any", "flatten", "first", "last", "get"):
                        tested |= {f for (a, f) in _self_fields(b, t["args"][0])}
                    if m in ("is_empty", "len", "capacity") and t["args"]:
                        gargs = [a for a in t["callee"].get("args", []) if not a.startswith("'")]
                        recv_ty = d.rsplit("::", 1)[0]
                        elem = gargs[0] if gargs else ""
                        flds = _self_fields(b, t["args"][0])
                        tested |= {f for (a, f) in flds}
                        outer_nested = ("Vec" in recv_ty or "slice" in recv_ty) and elem.startswith("alloc::vec::Vec<")
                        ctx.check(not outer_nested and m != "capacity", "%s/%s-on-%s" % (short(pd), m, "+".join(sorted(f for (a, f) in flds)) or "?"), site_of(b, bb),
                                  "emptiness of `%s` (a nested Vec<Vec<_>> whose outer length is fixed by the number of relationship graphs) is decided "
                                  "by its outer %s: with any synchronized relationship registered the buffer never counts as empty and an "
                                  "idle server sends a mutate message per tick and client" % ("+".join(sorted(f for (a, f) in flds)), m),
                                  "%s on %s<%s>" % (m, short(recv_ty)[-30:], short(elem)[:50]))
            ctx.predicate_fields = getattr(ctx, "predicate_fields", {})
            ctx.predicate_fields[pd] = tested
    # content containers of Mutations must all be consulted by its predicate
    mp = ctx.predicate_fields.get(MUT + "::is_empty", set())
    nested_or_vec = {f["name"] for f in F.adt_fields(MUT) if "EntityMutations" in f["ty"] and "buffer" not in f["name"]}
    ctx.check(nested_or_vec <= mp and nested_or_vec, "Mutations::is_empty/covers-all-content", MUT,
              "Mutations::is_empty ignores %s" % sorted(nested_or_vec - mp), "tests %s" % sorted(mp))
    # Updates: is_empty / flags / send agree on the set of containers
    up = ctx.predicate_fields.get(UPD + "::is_empty", set())
    fl = ctx.fn("updates::Updates::flags")
    ftested = set()
    for bb, t in fl.calls():
        if callee_decl(t).rsplit("::", 1)[-1] in ("is_empty", "len") and t["args"]:
            ftested |= {f for (a, f) in _self_fields(fl, t["args"][0])}
    us = ctx.fn("updates::Updates::send")
    serialized = set()
    for b in F.with_closures(us):
        for bb, t in b.calls():
            for a in t["args"]:
                for o in tracer(b).operand(a):
                    for e in o.path:
                        if e[0] == "f" and e[3] == UPD:
                            serialized.add(e[2])
        for bb, i, st in b.statements():
            if st["s"] == "assign":
                for part in ([st["rvalue"].get("place")] if st["rvalue"].get("place") else []):
                    for e in part["p"]:
                        if isinstance(e, dict) and e.get("adt") == UPD:
                            serialized.add(e["name"])
    content = {f for f in serialized if not f.endswith("_len")}
    ctx.check(up == ftested, "Updates/is_empty-agrees-with-flags", site_of(fl),
              "Updates::is_empty tests %s but Updates::flags tests %s: a tick carrying only the missing section is dropped or sent without its section" % (sorted(up), sorted(ftested)),
              "both test %s" % sorted(up))
    ctx.check(content <= up and len(content) >= 4, "Updates/is_empty-covers-serialised-sections", site_of(us),
              "Updates::send serialises %s but Updates::is_empty only tests %s" % (sorted(content), sorted(up)), "sections %s" % sorted(content))


def _mutation_tick_stores(F, body):
    """Stores into values of ClientTicks.mutation_ticks inside `body`: ('deref-store', bb, i, value_op, slot_call_bb) and
    ('insert', bb, value_op)."""
    tr = tracer(body)
    res = []
    for bb, i, s in body.statements():
        if s["s"] != "assign":
            continue
        pl = s["place"]
        if pl["p"] and pl["p"][-1] == "deref" or (pl["p"] and "deref" in pl["p"]):
            base = tr.local(pl["l"])
            for o in base:
                if o.kind == "call":
                    ct = body.blocks[o.data].term
                    d = callee_decl(ct)
                    if d.rsplit("::", 1)[-1] in ("get_mut", "entry", "or_insert", "or_insert_with", "or_default") and ct["args"]:
                        if (TICKS, "mutation_ticks") in _self_fields(body, ct["args"][0]):
                            res.append(("deref-store", bb, i, s["rvalue"], o.data))
    for bb, t in body.calls():
        d = callee_decl(t)
        m = d.rsplit("::", 1)[-1]
        if t["args"] and (TICKS, "mutation_ticks") in _self_fields(body, t["args"][0]):
            if m == "insert":
                res.append(("insert", bb, None, t["args"][-1], bb))
            elif m in ("remove", "clear", "retain", "drain", "extend", "remove_entry"):
                res.append((m, bb, None, None, bb))
            elif m in ("iter_mut", "values_mut"):
                res.append(("iter_mut", bb, None, None, bb))
    return res


def r2_ack(ctx):
    F = ctx.F
    _F[0] = F
    ack = ctx.fn("ClientTicks::ack_mutate_message")
    tr = tracer(ack)
    stores = [s for s in _mutation_tick_stores(F, ack) if s[0] in ("deref-store", "insert")]
    if not stores:
        ctx.bad("ack/store", site_of(ack), "no store into a mutation tick found in ack_mutate_message", kind="anchor-missing")
        return
    removes = [bb for bb, t in ack.calls() if callee_decl(t).endswith("::remove") and (TICKS, "mutations") in _self_fields(ack, t["args"][0])]
    ctx.check(len(removes) == 1, "ack/single-lookup", site_of(ack), "in-flight table consulted %d times (expected one remove)" % len(removes))
    if not removes:
        return
    rb = removes[0]
    # the lookup key is the acknowledged index (param), not something else
    key = tr.operand(ack.blocks[rb].term["args"][1])
    idx_params = [i for i in range(1, ack.arg_count + 1) if "MutateIndex" in ack.locals[i]["ty"]]
    ctx.check(bool(key) and all(o.kind == "param" and o.data in idx_params for o in key), "ack/lookup-by-acknowledged-index", site_of(ack, rb),
              "the in-flight entry is not looked up by the acknowledged mutate index")
    for kind, bb, i, val, slot in stores:
        rv = val
        op = rv["op"] if isinstance(rv, dict) and rv.get("rv") in ("use", "cast") else rv
        origins = tr.operand(op) if isinstance(op, dict) and "k" in op else set()
        prov = bool(origins) and all(o.kind == "call" and o.data == rb and o.path and o.path[-1][0] == "f" and o.path[-1][2] == "tick" for o in origins)
        ctx.check(prov, "ack/stores-the-recorded-tick", site_of(ack, bb),
                  "the tick written into the entity's baseline does not come from the acknowledged message's record (origins: %s): "
                  "storing e.g. the current tick would skip changes made between send and ack" % sorted(tr.describe(o) for o in origins),
                  "value <- mutations.remove(index).tick")
        g = required_outcomes(F, ack, bb)
        on_some = any(c["kind"] == "variant" and o == {"Some"} and any(x.kind == "call" and x.data == rb for x in tr.place(c["place"])) for (s_, c, o) in g)
        ctx.check(on_some, "ack/only-for-known-message", site_of(ack, bb), "the store is reachable when the acknowledged index is unknown")
        newer = [(c, o) for (s_, c, o) in g if c["kind"] == "boolcall" and c["name"].endswith("Tick::is_newer_than")]
        okn = False
        for c, o in newer:
            a = c["args"]
            a0 = tr.operand(a[0])
            a1 = tr.operand(a[1])
            stored_is_arg0 = any(x.kind == "call" and x.data == slot for x in a0)
            recorded_is_arg1 = all(x.kind == "call" and x.data == rb and x.path and x.path[-1][2] == "tick" for x in a1) and a1
            if o == {False} and stored_is_arg0 and recorded_is_arg1:
                okn = True
        ctx.check(okn, "ack/forward-only", site_of(ack, bb),
                  "the store is not guarded by `!stored.is_newer_than(recorded, now)`: a late acknowledgement could move the baseline backwards or a newer baseline could be overwritten")
    # the entities whose baseline is written are those recorded for the message: every slot lookup is keyed by a value that comes out of
    # an iteration (by reference, by value, draining, ...) over the removed record's entity list
    def from_record(op):
        for (k, d) in dep_closure(ack, op):
            if k != "call":
                continue
            for a in ack.blocks[d].term.get("args") or []:
                for o in tr.operand(a):
                    if o.kind == "call" and o.data == rb and any(e[0] == "f" and e[2] == "entities" for e in o.path):
                        return True
        return False
    slots = sorted({slot for (kind, bb, i, val, slot) in stores})
    ok = bool(slots)
    for sl in slots:
        st = ack.blocks[sl].term
        if len(st.get("args") or []) < 2 or not from_record(st["args"][1]):
            ok = False
    ctx.check(ok, "ack/iterates-recorded-entities", site_of(ack), "the acknowledgement is not applied to the entities recorded for that message")


def r3_writers(ctx):
    F = ctx.F
    _F[0] = F
    fields = {f["name"]: f for f in F.adt_fields(TICKS)}
    ctx.check(fields["mutation_ticks"]["vis"].startswith("restricted") and fields["mutations"]["vis"].startswith("restricted"),
              "ClientTicks/fields-private", TICKS, "mutation_ticks / mutations are not private")
    from callgraph import callgraph
    cg = callgraph(F)
    for body in F.real_fns():
        if "::tests::" in body.path:
            continue
        st = _mutation_tick_stores(F, body)
        if not st:
            continue
        kinds = sorted({s[0] for s in st})
        name = short(body.path)
        if kinds == ["insert"]:
            # setter: value must be the function's own parameter; every caller passes the running system's this_run()
            tr = tracer(body)
            for s in st:
                v = tr.operand(s[3])
                ctx.check(bool(v) and all(o.kind == "param" for o in v), "%s/setter-stores-parameter" % name, site_of(body, s[1]), "setter stores something other than its parameter")
            callers = [(cb, cbb) for (cb, cbb, k) in cg.callers_of(body.path) if "::tests::" not in cb.path]
            ctx.check(bool(callers), "%s/has-callers" % name, site_of(body), "no caller found")
            for cb, cbb in callers:
                ctr = tracer(cb)
                targ = cb.blocks[cbb].term["args"][-1]
                o = ctr.operand(targ)
                ok = bool(o) and all(x.kind == "call" and callee_decl(cb.blocks[x.data].term).endswith("SystemChangeTick::this_run") for x in o)
                ctx.check(ok, "%s/caller-%s-passes-this_run" % (name, short(cb.path)), site_of(cb, cbb),
                          "the baseline is moved to something other than the replication system's this_run tick")
        elif kinds == ["deref-store"]:
            ctx.check(body.path.endswith("ack_mutate_message") or True, "%s/ack-writer" % name, site_of(body), "", "acknowledgement path (checked by R2)")
            ctx.check(body.path == ctx.fn("ClientTicks::ack_mutate_message").path, "%s/only-ack-may-store-in-place" % name, site_of(body),
                      "a second function updates mutation ticks in place")
        elif kinds == ["remove"]:
            ctx.ok("%s/remover" % name, site_of(body), "removes the entity's baseline")
        else:
            ctx.bad("%s/unclassified-writer" % name, site_of(body), "unclassified writer of ClientTicks.mutation_ticks (%s): who may move an entity's baseline is a closed set" % kinds)
    # cleanup of unacknowledged entries touches only the in-flight table
    cl = ctx.fn("ClientTicks::cleanup_older_mutations")
    touched = set()
    for b in F.with_closures(cl):
        for bb, t in b.calls():
            for a in t["args"][:1]:
                touched |= {f for (adt, f) in _self_fields(b, a) if adt == TICKS}
    ctx.check(touched == {"mutations"}, "cleanup_older_mutations/touches-only-in-flight-table", site_of(cl), "cleanup touches %s" % sorted(touched))


def r4_client_acks(ctx):
    """The client acknowledges exactly the mutate messages it has *consumed* (applied, or skipped per entity as outdated), with the
    index decoded from that message, and always sends the collected acknowledgements. An acknowledgement for a message that is
    merely buffered (waiting for its update message) lets the server stop re-sending data the client may later skip as outdated."""
    from flow import cmp_facts, resolve_through_closure
    F = ctx.F
    _F[0] = F
    BM = "bevy_replicon::client::BufferedMutate"
    sites = []
    for b in F.real_fns():
        if "::tests::" in b.path or not b.path.startswith("bevy_replicon::client"):
            continue
        for bb, t in b.calls():
            if callee_decl(t).endswith("postcard_utils::to_extend_mut") and any("MutateIndex" in a_ for a_ in t["callee"]["args"]):
                sites.append((b, bb, t))
    if not ctx.check(len(sites) == 1, "client/one-ack-write-site", "", "%d sites write a MutateIndex acknowledgement" % len(sites)):
        return
    b, abb, at = sites[0]
    tr = tracer(b)

    def is_msg_field(op, field):
        return any(any(e[0] == "f" and e[2] == field and e[3] == BM for e in o.path) for o in tr.operand(op))
    # (a) only for a message that is being consumed: behind the `its update tick has been reached` test
    ready = None
    for (sb, c, o) in required_outcomes(F, b, abb):
        if c["kind"] != "cmp" or len(o) != 1:
            continue
        out = next(iter(o))
        if out not in (True, False):
            continue
        rel, x, y = cmp_facts(c, out)
        if is_msg_field(x, "update_tick") and not is_msg_field(y, "update_tick") and rel in ("<=", "<", "=="):
            ready = sb
        if is_msg_field(y, "update_tick") and not is_msg_field(x, "update_tick") and rel in (">=", ">", "=="):
            ready = sb
    ctx.check(ready is not None, "client/ack-only-when-consumed", site_of(b, abb),
              "a mutate message is acknowledged although it may only have been buffered (no `message.update_tick <= current update tick` test guards the acknowledgement): "
              "the server stops re-sending its data, and if a later update message for the same entity arrives first, the buffered data is skipped as outdated and lost "
              "- the client stays confirmed at the newer tick with the old value")
    # (b) the acknowledged index is the one decoded from the message itself
    src = tr.operand(at["args"][0])
    direct = bool(src) and all(o.kind == "call" and callee_decl(b.blocks[o.data].term).endswith("postcard_utils::from_buf") for o in src)
    via_field = is_msg_field(at["args"][0], "mutate_index")
    stored_ok = False
    if via_field:
        for cb in F.real_fns():
            if not cb.path.startswith("bevy_replicon::client"):
                continue
            ctr = None
            for bb2, i2, st2 in cb.statements():
                if st2["s"] == "assign" and st2["rvalue"]["rv"] == "agg" and st2["rvalue"].get("adt") == BM:
                    ctr = ctr or tracer(cb)
                    idx = st2["rvalue"]["fields"].index("mutate_index")
                    o2 = ctr.operand(st2["rvalue"]["ops"][idx])
                    stored_ok = bool(o2) and all(x.kind == "call" and callee_decl(cb.blocks[x.data].term).endswith("postcard_utils::from_buf") for x in o2)
    ctx.check(direct or (via_field and stored_ok), "client/acks-decoded-index", site_of(b, abb), "the acknowledged index is not the one decoded from the message")
    # (c) every consumed message is acknowledged: from the `ready` edge no exit without the ack write
    if ready is not None:
        c = switch_cond(b, ready)
        pass_targets = []
        for (t2, lab) in b.succ[ready]:
            if b.reachable_avoiding(abb, [], start=t2):
                pass_targets.append(t2)
        skipping = [e for e in b.exits() for t2 in pass_targets if b.reachable_avoiding(e, (), start=t2, removed_blocks=(abb,))]
        ctx.check(not skipping, "client/every-consumed-message-acked", site_of(b, ready), "a consumed message may go unacknowledged (the server would re-send it until the timeout)")
    # (c') a consumed (and acknowledged) message is applied: from the `ready` edge no exit without handing the message to the
    # per-entity application (which alone decides, per entity, what is outdated)
    if ready is not None:
        aps = [bb for bb, t in b.calls() if callee_decl(t).endswith("client::apply_array") or callee_decl(t).endswith("client::apply_mutations")]
        if aps:
            notapplied = [e for e in b.exits() for t2 in pass_targets if b.reachable_avoiding(e, (), start=t2, removed_blocks=tuple(aps))]
            ctx.check(not notapplied, "client/every-consumed-message-applied", site_of(b, ready),
                      "a mutate message can be consumed and acknowledged without being applied: the server stops re-sending values the client never looked at (whether an "
                      "entity's data is outdated is decided per entity, from its own confirmed tick)")
        else:
            ctx.bad("client/apply-site", site_of(b), "no application of the consumed message found next to the acknowledgement", kind="anchor-missing")
    # (d) the collected acknowledgements are sent, after the consumer ran, outside any loop
    ar = ctx.fn("client::apply_replication")
    atr = tracer(ar)
    sends = []
    for bb, t in ar.calls():
        if callee_decl(t).endswith("RepliconClient::send"):
            for o in atr.operand(t["args"][1]):
                if o.kind == "stmt":
                    rv = ar.blocks[o.data[0]].stmts[o.data[1]]["rvalue"]
                    if rv["rv"] == "agg" and rv.get("variant") == "MutationAcks":
                        sends.append((bb, t))
    if not ctx.check(len(sends) == 1, "apply_replication/one-ack-send", site_of(ar), "%d sends on the acknowledgement channel" % len(sends)):
        return
    sbb, st = sends[0]
    payload = {(o.kind, o.data) for o in atr.operand(st["args"][2])}
    # the call (in apply_replication) through which the ack-writing function receives its buffer
    root = F.fns.get(b.j.get("closure_root", b.path)) or b
    feeders = [(bb, t) for bb, t in ar.calls() if callee_decl(t) == root.path]
    ok_buf = False
    for bb, t in feeders:
        for a_ in t["args"]:
            if {(o.kind, o.data) for o in atr.operand(a_)} & payload:
                ok_buf = True
    ctx.check(bool(feeders) and ok_buf, "apply_replication/sends-the-collected-acks", site_of(ar, sbb), "the buffer sent on the acks channel is not the one the acknowledgements were written into")
    ctx.check(not ar.loops_containing(sbb), "apply_replication/acks-sent-after-loop", site_of(ar, sbb), "acks are sent inside a loop")
    ctx.check(all(ar.dominates(bb, sbb) for bb, _ in feeders), "apply_replication/acks-sent-after-consuming", site_of(ar, sbb), "acks are sent before the messages are consumed")
    extra = []
    for (sb, c, o) in required_outcomes(F, ar, sbb):
        if c["kind"] == "boolcall" and c["name"].endswith("::is_empty") and o == {False}:
            continue
        if c["kind"] == "cmp":
            continue  # `acks_size != 0`-style emptiness tests
        if is_next_switch(ar, c):
            continue  # leaving the receive loops
        extra.append((c["kind"], c.get("name"), sorted(map(str, o))))
    ctx.check(not extra, "apply_replication/acks-always-sent", site_of(ar, sbb), "sending the acknowledgements additionally depends on %s" % extra)
    rc = [t for bb, t in ar.calls() if callee_decl(t).endswith("RepliconClient::receive")]
    chans = set()
    for t in rc:
        for o in atr.operand(t["args"][1]):
            if o.kind == "stmt":
                rv = ar.blocks[o.data[0]].stmts[o.data[1]]["rvalue"]
                if rv["rv"] == "agg":
                    chans.add(rv.get("variant"))
    ctx.check("Mutations" in chans, "apply_replication/drains-mutations-channel", site_of(ar), "channels drained: %s" % chans)


def _only_error_exits(body, start, avoid):
    """Paths from `start` to an exit that avoid `avoid` all pass through an error propagation (`?` residual)."""
    res = [bb for bb, t in body.calls() if callee_decl(t).endswith("FromResidual::from_residual")]
    for e in body.exits():
        if body.reachable_avoiding(e, (), start=start, removed_blocks=tuple([avoid] + res)):
            return False
    return True


def r5_ack_lists(ctx):
    import rules.C10 as C10
    C10.r1_boundaries(ctx)


def r6_ack_list_pool(ctx):
    """The recycled entity lists behind the acknowledgement table are empty when reused: an acknowledgement never covers entities of
    an earlier (expired or acknowledged) message (C09.R1c restricted to the entity-list pool)."""
    import rules.C09 as C09
    before = len(ctx.instances)
    C09.r1c_pool_hygiene(ctx)
    keep = [i for i in ctx.instances[before:] if "EntityBuffer" in i["key"] or "entities_buffer" in i["key"] or (not i["ok"] and "pools" in i["key"])]
    ctx.instances[before:] = keep


def r7_acks_stay_in_their_connection(ctx):
    """Message indices restart with every connection, so an acknowledgement is only meaningful inside the connection whose message it
    names. The client acknowledges a buffered mutate message when it consumes it: a message buffered in one connection and consumed in
    the next acknowledges an index of the new connection that the client never received - if that message is lost its data is skipped.
    The buffer of waiting mutate messages is therefore emptied, unconditionally, when the client disconnects (C09.R1 restricted to
    that buffer)."""
    import rules.C09 as C09
    before = len(ctx.instances)
    C09.r1_client(ctx)
    keep = [i for i in ctx.instances[before:] if "BufferedMutations" in i["key"] or i.get("kind") == "anchor-missing"]
    ctx.instances[before:] = keep
    if not any("BufferedMutations" in i["key"] for i in keep):
        ctx.bad("client/BufferedMutations/anchor", "", "the buffer of waiting mutate messages was not found among the client's session state", kind="anchor-missing")


def r20_unconditional_mutators(ctx):
    """Mutators this property relies on always perform their effect (shared table in rules/mutators.py)."""
    import rules.mutators as mutators
    mutators.run_for(ctx, "C11")


RULES = [
    ("C11.R1", "send gates test content (not the outer length of nested buffers); predicates/flags/sections agree", r1_send_gates, 8, ["default", "all-features", "server-only"]),
    ("C11.R2", "acknowledgement stores the recorded tick, only for known messages, forward-only", r2_ack, 6, ["default", "all-features", "server-only"]),
    ("C11.R3", "closed set of writers of the per-entity mutation tick", r3_writers, 5, ["default", "all-features", "server-only"]),
    ("C11.R4", "the client acknowledges exactly the messages it has consumed, with their own index, and always sends the acks", r4_client_acks, 8, ["default", "all-features", "client-only"]),
    ("C11.R5", "an acknowledgement covers exactly the entities whose data travelled in that message, so acknowledging one message never skips data of another (same rule as C10.R1)", r5_ack_lists, 12, ["default", "all-features", "server-only"]),
    ("C11.R6", "recycled acknowledgement entity lists are empty when reused (an ack never covers entities of an earlier message)", r6_ack_list_pool, 1, ["default", "all-features", "server-only"]),
    ("C11.R7", "acknowledgements stay inside their connection: mutate messages still buffered at a disconnect are dropped, so the next connection never acknowledges their indices (C09.R1 restricted to that buffer)", r7_acks_stay_in_their_connection, 1, ["default", "all-features", "client-only"]),
    ("C11.R20", "mutators this property relies on always perform their effect (rules/mutators.py): no early return, no guard outside the allowed set", r20_unconditional_mutators, 3, ["default", "all-features"]),
]
THOROUGH_CONFIGS = ["default", "all-features", "server-only", "client-only"]
