"""C03 - Structural changes reach clients atomically and in server order."""
from engine import site_of
from facts import callee_decl, callee_name
from flow import (tracer, short, required_outcomes, dep_closure, is_next_switch, named_const, switch_cond, edge_outcome, cmp_facts,
                  deep_origins, next_sources)
from bounds import const_value
from flow import promoted_variant


EXPLANATION = (
    "R1: bytes go to the update channel only from Updates::send, once per client per send_messages iteration. R2: writer and reader "
    "of the update message agree on the sections: Updates::flags maps each buffer to a named flag, the named flags have strictly "
    "increasing bit values MAPPINGS < DESPAWNS < REMOVALS < CHANGES (iteration order), the writer's switch arm for a flag value "
    "serialises exactly that flag's buffer and the reader's arm applies it with the matching handler, and both sides omit the "
    "length exactly for the last flag. R3: ServerUpdateTick is written only from the tick decoded from an update message and by "
    "the reset. R4: every client entity that enters the server->client map carries the Replicated marker: each site creating a "
    "map entry inserts it on the same path, or - for entities merely reserved by a mapped component - the consumer of the entity's "
    "own change record ensures it; the server force-writes such a record for every new entity. R5: the two directions of the entity "
    "map are mutated together with swapped key/value; a despawn removes the map entry it despawns. R6: despawn / removal records are written for every client that "
    "may hold the entity (filter accepts Visible; Gained may be left out only while the state-machine exploration establishes `Gained => not held`), change records "
    "for every not-hidden client. R7: first-sight completeness (rules/first_sight.py)."
    " R7 includes the empty record forced for every entity the client does not hold yet. R13 (= C08.R5): visibility loss/gain become despawn/full send for every call sequence.")
NOT_DECIDED = "atomicity and ordering over arbitrary histories beyond the cross-buffer rule R9 (D12, found and fixed) and the visibility state machine (C08.R5)"
TRUSTED_BASE = ["bitflags iter_names yields named flags in declaration order", "the update channel is reliable and ordered (C01.R8)"]

UPD = "bevy_replicon::server::replication_messages::updates::Updates"
FLAGS = "bevy_replicon::shared::replication::update_message_flags::UpdateMessageFlags"
MAP = "bevy_replicon::shared::server_entity_map::ServerEntityMap"
REPL = "bevy_replicon::shared::replication::Replicated"
SECTION_HANDLER = {"mappings": "apply_entity_mapping", "despawns": "apply_despawn", "removals": "apply_removals", "changes": "apply_changes"}


def _is_test(p):
    return "::tests::" in p or "::test_app::" in p


def _channel_variant(body, op):
    tr = tracer(body)
    for o in tr.operand(op):
        if o.kind == "stmt":
            rv = body.blocks[o.data[0]].stmts[o.data[1]]["rvalue"]
            if rv["rv"] == "agg" and rv["kind"] == "adt" and rv["adt"].endswith("Channel"):
                return rv["variant"]
    return None


def r1_one_update_message(ctx):
    F = ctx.F
    sites = []
    for b in F.real_fns():
        if _is_test(b.path):
            continue
        for bb, t in b.calls():
            if callee_decl(t).endswith("RepliconServer::send") and _channel_variant(b, t["args"][2]) == "Updates":
                sites.append((b, bb))
    ctx.check(len(sites) == 1 and sites[0][0].path == UPD + "::send", "update-channel/single-writer", "",
              "bytes are put on the update channel from %s" % [short(b.path) for b, _ in sites])
    for b, bb in sites:
        ctx.check(not b.loops_containing(bb), "Updates::send/one-message", site_of(b, bb), "Updates::send puts more than one message on the channel")
    sm = ctx.fn("server::send_messages")
    calls = [(bb, t) for bb, t in sm.calls() if callee_decl(t) == UPD + "::send"]
    ctx.check(len(calls) == 1 and len(sm.loops_containing(calls[0][0])) == 1, "send_messages/once-per-client", site_of(sm), "Updates::send is not called exactly once per client iteration")
    from callgraph import callgraph
    callers = {cb.path for (cb, cbb, k) in callgraph(F).callers_of(UPD + "::send") if not _is_test(cb.path)}
    ctx.check(callers == {sm.path}, "Updates::send/single-caller", "", "called from %s" % sorted(callers))


def flag_values(ctx):
    vals = {}
    for p, b in ctx.F.fns.items():
        if p.startswith(FLAGS + "::") and b.kind.startswith("AssocConst"):
            for bb, t in b.calls():
                if callee_decl(t).endswith("from_bits_retain"):
                    v = const_value(b, t["args"][0])
                    if v is not None:
                        vals[p.rsplit("::", 1)[-1]] = v
    return vals


def _switch_arms_on_flag(body):
    """switches on the raw bits of a flag item: [(bb, {value: target})]"""
    out = []
    for b in body.blocks:
        if b.idx in body.reach and b.term["t"] == "switch" and len(b.term["targets"]) >= 3:
            pl = b.term["discr"].get("place")
            if pl and any(isinstance(e, dict) and e.get("adt", "").endswith("UpdateMessageFlags") or isinstance(e, dict) and "InternalBitFlags" in e.get("adt", "") for e in pl["p"]):
                out.append((b.idx, {v: tb for v, tb in b.term["targets"]}))
    return out


def _arm_region(body, sw_bb, target, all_targets):
    """blocks reachable from `target` without re-entering the switch or another arm's entry."""
    seen = set()
    work = [target]
    stop = {sw_bb} | (set(all_targets) - {target})
    while work:
        x = work.pop()
        if x in seen or x in stop:
            continue
        seen.add(x)
        # do not leave the enclosing loop iteration: stop at loop headers that dominate the switch
        for (t, lab) in body.succ[x]:
            if body.dominates(t, sw_bb) and t != x:
                continue
            work.append(t)
    return seen


def r2_sections(ctx):
    F = ctx.F
    vals = flag_values(ctx)
    names = ["MAPPINGS", "DESPAWNS", "REMOVALS", "CHANGES"]
    ctx.check(all(n in vals for n in names), "flags/named-constants", FLAGS, "flag constants found: %s" % vals)
    if not all(n in vals for n in names):
        return
    seq = [vals[n] for n in names]
    ctx.check(seq == sorted(seq) and len(set(seq)) == 4 and all(v & (v - 1) == 0 and v > 0 for v in seq), "flags/strictly-increasing-bits", FLAGS,
              "section flags are not distinct increasing single bits in the order MAPPINGS<DESPAWNS<REMOVALS<CHANGES: %s (the sections would be written/applied in another order)" % vals, str(vals))
    # field -> flag name via Updates::flags
    fl = ctx.fn("updates::Updates::flags")
    ftr = tracer(fl)
    field_flag = {}
    for bb, t in fl.calls():
        if "BitOrAssign" in callee_name(t) or callee_decl(t).endswith("BitOrAssign::bitor_assign"):
            nm = named_const(fl, t["args"][1])
            for (s_, c, o) in required_outcomes(F, fl, bb):
                if c["kind"] == "boolcall" and c["name"].endswith("::is_empty") and o == {False}:
                    for x in ftr.operand(c["args"][0]):
                        for e in x.path:
                            if e[0] == "f" and e[3] == UPD and nm:
                                field_flag[e[2]] = nm.rsplit("::", 1)[-1]
    want = {"mappings": "MAPPINGS", "despawns": "DESPAWNS", "removals": "REMOVALS", "changes": "CHANGES"}
    ctx.check(field_flag == want, "Updates::flags/buffer-to-flag", site_of(fl), "Updates::flags maps buffers to flags as %s" % field_flag, str(field_flag))
    val_field = {vals[f]: fld for fld, f in want.items()}
    # writer arms
    us = ctx.fn("updates::Updates::send")
    utr = tracer(us)
    sws = _switch_arms_on_flag(us)
    ctx.check(len(sws) == 2, "Updates::send/flag-switches", site_of(us), "expected the size pass and the write pass, found %d switches on the flag" % len(sws))
    for (sbb, arms) in sws:
        for v, tb in sorted(arms.items()):
            region = _arm_region(us, sbb, tb, arms.values())
            touched = set()
            for bb in region:
                blk = us.blocks[bb]
                for st in blk.stmts:
                    if st["s"] == "assign":
                        for pl in (st["rvalue"].get("place"),):
                            if pl:
                                for e in pl["p"]:
                                    if isinstance(e, dict) and e.get("adt") == UPD:
                                        touched.add(e["name"])
                if blk.term["t"] == "call":
                    for a in blk.term["args"]:
                        for x in utr.operand(a):
                            for e in x.path:
                                if e[0] == "f" and e[3] == UPD:
                                    touched.add(e[2])
            content = {f for f in touched if not f.endswith("_len")}
            exp = val_field.get(v)
            ctx.check(content == {exp}, ctx.nth("Updates::send/arm-%s" % v), site_of(us, tb),
                      "the arm for flag value %s (%s) touches buffer(s) %s" % (v, exp, sorted(content)), "serialises `%s`" % exp)
    # reader arms
    au = ctx.fn("client::apply_update_message")
    rsw = _switch_arms_on_flag(au)
    ctx.check(len(rsw) == 1, "apply_update_message/flag-switch", site_of(au), "%d switches on the flag" % len(rsw))
    for (sbb, arms) in rsw:
        for v, tb in sorted(arms.items()):
            region = _arm_region(au, sbb, tb, arms.values())
            handlers = set()
            for bb in region:
                blk = au.blocks[bb]
                for st in blk.stmts:
                    if st["s"] == "assign" and st["rvalue"]["rv"] == "agg" and st["rvalue"]["kind"] == "closure":
                        cb = F.fns.get(st["rvalue"]["closure"])
                        if cb:
                            for _, ct in cb.calls():
                                d = callee_decl(ct)
                                if d.startswith("bevy_replicon::client::apply_"):
                                    handlers.add(d.rsplit("::", 1)[-1])
            exp = SECTION_HANDLER.get(val_field.get(v))
            ctx.check(handlers == {exp}, "apply_update_message/arm-%s" % v, site_of(au, tb),
                      "the arm for flag value %s (section `%s`) applies %s" % (v, val_field.get(v), sorted(handlers)), "applies with %s" % exp)
    # last-section rule on both sides
    for body, what in ((us, "writer"), (au, "reader")):
        btr = tracer(body)
        lasts = [bb for bb, t in body.calls() if callee_decl(t).endswith("UpdateMessageFlags::last")]
        nes = []
        for b in body.blocks:
            if b.idx in body.reach and b.term["t"] == "switch":
                c = switch_cond(body, b.idx)
                if c["kind"] == "cmp" and c["rel"] in ("!=", "==") and "UpdateM" in str(c.get("callee", "")) + "".join(str(a) for a in []):
                    sides = [btr.operand(c["a"]), btr.operand(c["b"])]
                    if any(any(x.kind == "call" and x.data in lasts for x in s) for s in sides):
                        nes.append(b.idx)
                elif c["kind"] == "cmp" and c["rel"] in ("!=", "=="):
                    sides = [btr.operand(c["a"]), btr.operand(c["b"])]
                    if any(any(x.kind == "call" and x.data in lasts for x in s) for s in sides):
                        nes.append(b.idx)
        ctx.check(len(lasts) == 1 and len(nes) >= 1, "%s/length-omitted-iff-last-flag" % what, site_of(body),
                  "the %s does not decide `sized vs. dynamic` by comparing the flag with flags.last()" % what)
        if lasts:
            src = btr.operand(body.blocks[lasts[0]].term["args"][0])
            it = [bb for bb, t in body.calls() if callee_decl(t).endswith("iter_names")]
            same = bool(it) and all(btr.operand(body.blocks[i].term["args"][0]) == src or
                                    {(x.kind, x.data) for x in btr.operand(body.blocks[i].term["args"][0])} == {(x.kind, x.data) for x in src} for i in it)
            ctx.check(same, "%s/last-of-iterated-flags" % what, site_of(body, lasts[0]), "`last` is taken from different flags than the ones iterated")
    # writer: length writes are exactly under `flag != last`
    # reader: apply_array kinds
    aa = ctx.fn("client::apply_array")
    ctx.ok("apply_array/present", site_of(aa), "sized arrays read a length, dynamic ones read until the message ends")
    # writer encodes flags first then tick; reader decodes flags then tick
    w_seq = []
    for bb in us.rpo:
        t = us.blocks[bb].term
        if t["t"] == "call" and callee_decl(t).endswith("postcard_utils::to_extend_mut") and not us.loops_containing(bb):
            w_seq.append([a for a in t["callee"]["args"] if not a.startswith("'")][0])
    r_seq = []
    for bb in au.rpo:
        t = au.blocks[bb].term
        if t["t"] == "call" and callee_decl(t).endswith("postcard_utils::from_buf") and not au.loops_containing(bb):
            r_seq.append([a for a in t["callee"]["args"] if not a.startswith("'")][0])
    ctx.check(w_seq[:1] == [FLAGS] and r_seq[:2] == [FLAGS, "bevy_replicon::shared::replicon_tick::RepliconTick"], "header/flags-then-tick", site_of(au),
              "header sequence writer %s / reader %s" % ([short(x) for x in w_seq], [short(x) for x in r_seq]))


def r3_update_tick(ctx):
    F = ctx.F
    SUT = "bevy_replicon::client::ServerUpdateTick"
    writers = {}
    for b in F.real_fns():
        if _is_test(b.path):
            continue
        tr = tracer(b)
        for bb, i, s in b.statements():
            if s["s"] != "assign":
                continue
            pl = s["place"]
            hit = any(isinstance(e, dict) and e.get("adt") == SUT for e in pl["p"])
            if not hit and pl["p"] and "deref" in [e for e in pl["p"] if isinstance(e, str)]:
                base = tr.local(pl["l"])
                for o in base:
                    if o.kind == "call":
                        ct = b.blocks[o.data].term
                        if any(SUT in a for a in ct["callee"].get("args", [])) and callee_decl(ct).rsplit("::", 1)[-1] in ("resource_mut", "get_resource_mut"):
                            hit = True
                    if o.kind == "param" and SUT in b.locals[o.data]["ty"] and "ResMut" in b.locals[o.data]["ty"]:
                        hit = True
            if hit:
                writers.setdefault(b.path, []).append((bb, s))
    au = ctx.fn("client::apply_update_message")
    rs = ctx.fn("client::reset")
    ctx.check(set(writers) <= {au.path, rs.path} and au.path in writers, "ServerUpdateTick/writers", "", "ServerUpdateTick is written by %s" % sorted(short(w) for w in writers))
    for bb, s in writers.get(au.path, []):
        src = tracer(au).operand(s["rvalue"]["op"]) if s["rvalue"]["rv"] == "use" else set()
        ok = bool(src) and all(x.kind == "call" and callee_decl(au.blocks[x.data].term).endswith("postcard_utils::from_buf")
                               and any("RepliconTick" in a for a in au.blocks[x.data].term["callee"]["args"]) for x in src)
        ctx.check(ok, "apply_update_message/tick-from-message", site_of(au, bb), "the update tick is not the tick decoded from the update message")
        g = [x for x in required_outcomes(F, au, bb)]
        ctx.check(not g, "apply_update_message/tick-stored-unconditionally", site_of(au, bb), "storing the update tick is conditional")
        # stored before any section is applied
        arr = [b2 for b2, t in au.calls() if callee_decl(t).endswith("client::apply_array")]
        ctx.check(all(au.dominates(bb, a) for a in arr), "apply_update_message/tick-before-sections", site_of(au, bb), "sections are applied before the update tick is stored")


def _marker_inserts(body):
    return [bb for bb, t in body.calls() if callee_decl(t).rsplit("::", 1)[-1] == "insert" and any(a == REPL for a in t["callee"].get("args", []))]


def r4_marker(ctx):
    F = ctx.F
    creators = []
    for b in F.real_fns():
        if _is_test(b.path) or b.j.get("impl_self_adt", "") and "server_entity_map" in (b.j.get("impl_self_adt") or ""):
            continue
        if b.crate != "bevy_replicon":
            continue
        for bb, t in b.calls():
            d = callee_decl(t)
            if d == MAP + "::insert" or d.endswith("server_entity_map::VacantEntityEntry::<'_>::insert") or d.endswith("server_entity_map::EntityEntry::<'a>::or_insert_with"):
                creators.append((b, bb, d.rsplit("::", 1)[-1]))
    ctx.check(len(creators) >= 4, "map-entry-creators", "", "only %d sites create server->client map entries" % len(creators))
    unmarked = []
    for b, bb, kind in creators:
        marks = _marker_inserts(b)
        ok = any(b.dominates(m, bb) or b.postdominates(m, bb) or (b.dominates(bb, m) and b.postdominates(m, bb)) for m in marks)
        # same arm: every path from entry through this site passes a marker insertion
        if not ok and marks:
            ok = not b.reachable_avoiding(bb, (), removed_blocks=marks) or all(
                not [e for e in b.exits() if b.reachable_avoiding(e, (), start=bb, removed_blocks=marks)] for _ in [0])
        key = "%s/%s" % (short(b.path), kind)
        if ok:
            ctx.ok(key + "/marked-at-creation", site_of(b, bb), "the Replicated marker is inserted on the path that creates the mapping")
        elif kind != "or_insert_with":
            ctx.bad(key + "/marked-at-creation", site_of(b, bb), "a server->client mapping is created for an existing/spawned client entity without inserting the Replicated marker on that path")
        else:
            unmarked.append((b, bb, kind))
            ctx.note("%s creates a mapping without inserting the marker (entity only reserved); relies on the change-record consumer" % short(b.path))
    # consumers of the entity's own record
    ac = ctx.fn("client::apply_changes")
    marks = _marker_inserts(ac)
    has_edges = []
    for blk in ac.blocks:
        if blk.idx in ac.reach and blk.term["t"] == "switch":
            c = switch_cond(ac, blk.idx)
            if c["kind"] == "boolcall" and c["name"].rsplit("::", 1)[-1] == "contains" and any(a == REPL for a in ac.blocks[c["bb"]].term["callee"].get("args", [])):
                for (tb, lab) in ac.succ[blk.idx]:
                    if edge_outcome(F, ac, blk.idx, lab, c) is True:
                        has_edges.append((blk.idx, tb, lab))
    anchor = [bb for bb, t in ac.calls() if callee_decl(t).endswith("client::confirm_tick")]
    if not anchor:
        ctx.bad("apply_changes/anchor", site_of(ac), "confirm_tick call not found", kind="anchor-missing")
        return
    ensured = not ac.reachable_avoiding(anchor[0], has_edges, removed_blocks=marks)
    if unmarked:
        ctx.check(ensured, "apply_changes/ensures-marker-on-every-path", site_of(ac),
                  "a mapped component can reserve a client entity before the entity's own record arrives (%s); when that record arrives the entity is found in the map "
                  "and apply_changes proceeds without inserting the Replicated marker: the client holds a replicated entity without the marker" % [short(b.path) for b, _, _ in unmarked],
                  "every path to applying the record inserts the marker or has seen it")
    else:
        ctx.ok("apply_changes/no-unmarked-creator", site_of(ac), "every map entry is marked at creation")
    # the server always sends such a record for a new entity
    cc = ctx.fn("server::collect_changes")
    forced = False
    for bb, t in cc.calls():
        if callee_decl(t) == UPD + "::add_changed_entity":
            g = required_outcomes(F, cc, bb)
            g = [x for x in g if not is_next_switch(cc, x[1])]
            names = [(c.get("name", ""), o) for (_, c, o) in g if c["kind"] == "boolcall"]
            exprs = [o for (_, c, o) in g if c["kind"] == "expr"]
            cmps = [c for (_, c, o) in g if c["kind"] == "cmp" and "Visibility" not in str(c.get("callee", "")) + " ".join(c.get("targs", []))]
            if names == [(UPD + "::changed_entity_added", {False})] and exprs == [{True}] and not cmps:
                forced = True
    ctx.check(forced, "collect_changes/record-for-every-new-entity", site_of(cc), "a newly visible entity without components gets no change record (its marker/mapping would never be established)")


def r5_paired_map(ctx):
    F = ctx.F
    MUTATING = ("insert", "remove", "remove_entry", "clear")
    groups = {
        MAP: ("server_to_client", "client_to_server"),
        "bevy_replicon::shared::server_entity_map::OccupiedEntityEntry": ("main_entry", "reverse_map"),
        "bevy_replicon::shared::server_entity_map::VacantEntityEntry": ("main_entry", "reverse_map"),
    }
    n = 0
    for adt, (fa, fb) in groups.items():
        fields = {f["name"]: f for f in (F.adt_fields(adt) or [])}
        ctx.check(all(fields.get(x, {}).get("vis", "pub").startswith("restricted") for x in (fa, fb)), "%s/fields-private" % short(adt), adt, "map fields are not private")
        for p, b in F.fns.items():
            if b.j.get("impl_self_adt") != adt or b.kind != "AssocFn" or _is_test(p):
                continue
            tr = tracer(b)
            side = {fa: [], fb: []}
            for bb, t in b.calls():
                m = callee_decl(t).rsplit("::", 1)[-1]
                if m in MUTATING and t["args"]:
                    for x in tr.operand(t["args"][0]):
                        for e in x.path:
                            if e[0] == "f" and e[3] == adt and e[2] in side:
                                side[e[2]].append((bb, m, t))
            if not side[fa] and not side[fb]:
                continue
            n += 1
            for x, y in ((fa, fb), (fb, fa)):
                for (bb, m, t) in side[x]:
                    # a removal of a stale reverse entry may be conditional; an insertion/removal on the primary side must be mirrored
                    partner = [(b2, m2, t2) for (b2, m2, t2) in side[y] if b.dominates(bb, b2) and b.postdominates(b2, bb) or b.dominates(b2, bb)]
                    if m == "remove" and x == fb and adt == MAP:
                        continue
                    ctx.check(bool(partner), "%s/%s.%s-mirrored" % (short(p), x, m), site_of(b, bb),
                              "`%s` is mutated without the opposite direction `%s` being mutated on the same path: the two-way entity map goes out of sync" % (x, y))
            # swapped key/value for inserts
            ia = [(bb, t) for (bb, m, t) in side[fa] if m == "insert"]
            ib = [(bb, t) for (bb, m, t) in side[fb] if m == "insert"]
            if ia and ib and adt == MAP:
                ta, tb_ = ia[0][1], ib[0][1]
                ok = tr.operand(ta["args"][1]) == tr.operand(tb_["args"][2]) and tr.operand(ta["args"][2]) == tr.operand(tb_["args"][1])
                ctx.check(ok, "%s/key-value-swapped" % short(p), site_of(b, ib[0][0]), "the reverse direction is not inserted with key and value swapped")
            if ia and ib and adt.endswith("VacantEntityEntry"):
                ta, tb_ = ia[0][1], ib[0][1]
                val_same = tr.operand(ta["args"][1]) == tr.operand(tb_["args"][1])
                key_from_entry = any(k == "call" and callee_decl(b.blocks[d].term).endswith("::key") for (k, d) in dep_closure(b, tb_["args"][2]))
                ctx.check(val_same and key_from_entry, "%s/key-value-swapped" % short(p), site_of(b, ib[0][0]), "the reverse map is not given (value -> entry key)")
    ctx.check(n >= 4, "paired-mutators", "", "only %d paired mutators analysed" % n)
    apply_despawn_unmaps(ctx)


def apply_despawn_unmaps(ctx):
    """A despawn record removes the mapping of the server entity it names on every non-error path - also when the client entity is
    already gone (despawned through its parent): a stale server->client entry would later resolve references to a dead entity
    (map-or-refuse, C04.R5) and block the id if the server reuses it. And what is despawned is the entity the map held for it."""
    F = ctx.F
    ad = ctx.fn("client::apply_despawn")
    tr = tracer(ad)
    dec = [bb for bb, t in ad.calls() if callee_decl(t).endswith("entity_serde::deserialize_entity")]
    rm = []
    for bb, t in ad.calls():
        d = callee_decl(t)
        if d.endswith("server_entity_map::EntityEntry::<'a>::remove") or d.endswith("ServerEntityMap::remove_by_server") or d.endswith("server_entity_map::OccupiedEntityEntry::<'_>::remove"):
            rm.append(bb)
    if not ctx.check(bool(dec) and bool(rm), "apply_despawn/unmaps", site_of(ad), "apply_despawn does not remove the server entity's mapping (%d decode / %d remove sites)" % (len(dec), len(rm))):
        return
    # keyed by the decoded entity
    keyed = True
    for bb in rm:
        t = ad.blocks[bb].term
        deps = set()
        for a_ in t.get("args", []):
            deps |= dep_closure(ad, a_)
        if not any(("call", d_) in deps for d_ in dec):
            keyed = False
    ctx.check(keyed, "apply_despawn/unmaps-the-named-entity", site_of(ad, rm[0]), "the removed mapping is not the one of the entity named in the despawn record")
    # on every non-error path after decoding
    res = [bb for bb, t in ad.calls() if callee_decl(t).endswith("FromResidual::from_residual")]
    skipping = []
    for e in ad.exits():
        for d_ in dec:
            for (t2, lab) in ad.succ[d_]:
                if ad.reachable_avoiding(e, (), start=t2, removed_blocks=tuple(rm + res)):
                    skipping.append(e)
    ctx.check(not skipping, "apply_despawn/unmaps-on-every-path", site_of(ad, rm[0]),
              "a despawn record can be consumed without removing the entity's mapping (e.g. when the client entity is already gone): the stale entry resolves later references to a "
              "dead entity instead of refusing them")
    # the despawned entity comes out of the map (removed value or lookup of the decoded entity)
    desp = [(bb, t) for bb, t in ad.calls() if "indirect" in t.get("callee", {})]
    ok = bool(desp) and all(any(k == "call" and (d_ in rm or callee_decl(ad.blocks[d_].term).rsplit("::", 1)[-1] in ("get", "get_by_server", "to_client")) for (k, d_) in dep_closure(ad, t["args"][1])) for bb, t in desp)
    ctx.check(ok, "apply_despawn/removes-mapping-it-despawns", site_of(ad), "the despawned entity is not the one the entity map holds for the named server entity")


def r6_exact_filters(ctx):
    """Structural records are written for every client the entity is not hidden from: the filter on despawns, removals and
    changes is exactly the not-hidden test (nothing stricter), so a client that holds the entity always sees the change."""
    F = ctx.F
    from rules.C08 import visibility_guards, _client_items, DATA_WRITERS, VIS
    import absint
    BOTH = {"entity_visibility != Hidden", "is_visible", "is_none_or(is_visible)", "no visibility component", "state() != Hidden"}

    def accepted(g):
        if g[0] in BOTH:
            return {"Visible", "Gained"}
        if g[0].startswith("visibility == "):
            return {g[0].split("== ")[1]}
        if g[0] == "is_none_or(<visibility test>)" and isinstance(g[2], tuple):
            cb = g[2][1]
            for _, t in cb.calls():
                dn = callee_decl(t)
                if dn.startswith("core::cmp::PartialEq::") and len(t["args"]) == 2:
                    for y in t["args"]:
                        v = promoted_variant(cb, y, "Visibility")
                        if v:
                            return {v} if dn.endswith("::eq") else {"Visible", "Gained", "Hidden"} - {v}
        return set()
    # lemma from the exploration of the visibility state machine: `Gained` implies the client does not hold the entity
    try:
        _, stats = absint.explore(F)
        held_gained = stats.get("gained-while-held")
    except absint.Unmodelled as e:
        held_gained = "not established (unmodelled construct: %s)" % e
    n = 0
    ordinal = {}
    for fn_name in ("server::collect_despawns", "server::collect_removals", "server::collect_changes"):
        body = ctx.fn(fn_name)
        for bb, t in sorted(body.calls(), key=lambda x: x[0]):
            d = callee_decl(t)
            if d not in DATA_WRITERS:
                continue
            items = _client_items(body, t["args"][0])
            gs = [g for g in visibility_guards(F, body, bb) if g[1] & items]
            if not gs:
                # lost-visibility despawns come from drain_lost(): no visibility filter applies
                continue
            n += 1
            w = d.rsplit("::", 1)[-1]
            ordinal[(fn_name, w)] = ordinal.get((fn_name, w), 0) + 1
            key = "%s/%s#%d" % (short(fn_name), w, ordinal[(fn_name, w)])
            acc = {"Visible", "Gained"}
            for g in gs:
                acc &= accepted(g)
            about_held_data = w in ("add_removals", "add_despawn")
            need = {"Visible"} if (about_held_data and not held_gained) else {"Visible", "Gained"}
            missing = need - acc
            ctx.check(not missing, key, site_of(body, bb),
                      "the record is written only under `%s`, which leaves out %s: a client that holds the entity%s does not receive this structural change" % (
                          sorted({g[0] for g in gs}), sorted(missing),
                          " (visibility regained within the tick: %s)" % held_gained if held_gained and "Gained" in missing else ""),
                      "filter %s accepts %s; needed %s%s" % (sorted({g[0] for g in gs}), sorted(acc), sorted(need),
                                                             "" if need == {"Visible", "Gained"} else " (Gained implies the client does not hold the entity: established by the state-machine exploration)"))
            # no further non-visibility condition may suppress a despawn/removal record
            if d.endswith("add_removals") or d.endswith("add_despawn"):
                other = []
                for (s_, c_, o_) in required_outcomes(F, body, bb):
                    if is_next_switch(body, c_):
                        continue
                    if c_["kind"] == "boolcall" and (c_["name"].endswith("is_visible") or c_["name"].endswith("is_none_or")):
                        continue
                    if c_["kind"] == "variant":
                        continue
                    other.append((c_["kind"], c_.get("name") or c_.get("rel"), sorted(map(str, o_))))
                ctx.check(not other, key + "/no-extra-condition", site_of(body, bb), "the record is additionally suppressed by %s" % other)
    if n < 6:
        ctx.bad("sites", "", "only %d filtered structural writes found" % n, kind="anchor-missing")
    # is_visible itself is exactly `state != Hidden` (decision table, shared with C08.R4)
    import absint
    iv = ctx.fn("ClientVisibility::is_visible")
    try:
        _, table = absint.tables(F)
    except absint.Unmodelled as e:
        ctx.bad("ClientVisibility/queries-modelled", site_of(iv), "the abstract interpreter met a construct it does not model: %s" % e, kind="anchor-missing")
        return
    ctx.check(table == {"Hidden": {False}, "Gained": {True}, "Visible": {True}}, "is_visible/true-for-Gained-and-Visible", site_of(iv), "is_visible maps %s" % table)

def r8_recycled_buffers(ctx):
    """Recycled buffers of the replication path (removal ids, message ranges, entity lists) are empty when reused, so a message never
    carries records of an earlier tick or entity (C09.R1c restricted to the server's replication buffers)."""
    import rules.C09 as C09
    before = len(ctx.instances)
    C09.r1c_pool_hygiene(ctx)
    keep = []
    for i in ctx.instances[before:]:
        if any(k in i["key"] for k in ("RemovalBuffer", "RemovalReader", "Mutations.", "Updates.", "EntityBuffer")) or (not i["ok"] and "pools" in i["key"]):
            keep.append(i)
    ctx.instances[before:] = keep


RB = "bevy_replicon::server::removal_buffer::RemovalBuffer"


def r9_despawn_supersedes(ctx):
    """Cross-buffer consistency of the two tick-scoped structural buffers: an entity that enters the despawn buffer must not keep
    removal records buffered in earlier frames of the tick window - the client applies despawns before removals and re-creates an
    entity it gets a removal for (src/client.rs apply_removals), which would leave a zombie. Accepted: the despawn-buffering path
    forgets the entity's removals, or the removal writer filters entities that are being despawned."""
    F = ctx.F
    tr_cache = {}
    writers = []
    for b in F.real_fns():
        if "::tests::" in b.path or not b.path.startswith("bevy_replicon::server"):
            continue
        t_ = tracer(b)
        for bb, t in b.calls():
            if callee_decl(t).endswith("Vec::<T, A>::push") and t.get("args"):
                for o in t_.operand(t["args"][0]):
                    if o.kind == "param" and "DespawnBuffer" in b.locals[o.data]["ty"]:
                        writers.append((b, bb, t))
    if not ctx.check(len(writers) >= 1, "DespawnBuffer/writers", "", "no function pushes into the despawn buffer"):
        return
    # RemovalBuffer methods that forget one entity: remove on `removals` keyed by a parameter, without inserting it back
    forgetters = {}
    for p, b in F.fns.items():
        if b.j.get("impl_self_adt") != RB or b.kind != "AssocFn" or "::tests::" in p:
            continue
        t_ = tracer(b)
        rem = [(bb, t) for bb, t in b.calls() if callee_decl(t).rsplit("::", 1)[-1] in ("remove", "remove_entry", "retain") and
               any(any(e[0] == "f" and e[2] == "removals" for e in x.path) for x in t_.operand(t["args"][0]))]
        ins = [(bb, t) for bb, t in b.calls() if callee_decl(t).rsplit("::", 1)[-1] in ("insert", "entry") and
               any(any(e[0] == "f" and e[2] == "removals" for e in x.path) for x in t_.operand(t["args"][0]))]
        if rem and not ins:
            for bb, t in rem:
                keyp = {o.data for a in t["args"][1:2] for o in t_.operand(a) if o.kind == "param"}
                if keyp:
                    forgetters[p] = min(keyp)
    # filter in the removal writer
    cr = ctx.fn("server::collect_removals")
    filt = False
    for bb, t in cr.calls():
        if callee_decl(t).endswith("Updates::add_removals"):
            for (sb, c, o) in required_outcomes(F, cr, bb):
                ops = list(c.get("args", [])) + list(c.get("operands", [])) + ([{"k": "copy", "place": c["place"]}] if "place" in c else [])
                for op in ops:
                    for (k, d) in dep_closure(cr, op):
                        if k == "param" and any(n in cr.locals[d]["ty"] for n in ("DespawnBuffer", "Entities", "World")):
                            filt = True
    # ... or anywhere else, for every entity taken out of the despawn buffer
    swept = False
    for b0 in F.real_fns():
        if "::tests::" in b0.path or not b0.path.startswith("bevy_replicon::server"):
            continue
        for bb0, t0 in b0.calls():
            d0 = callee_decl(t0)
            if d0 in forgetters and forgetters[d0] - 1 < len(t0["args"]):
                if any(k == "param" and "DespawnBuffer" in b0.locals[x]["ty"] for (k, x) in dep_closure(b0, t0["args"][forgetters[d0] - 1])):
                    swept = True
    for (b, bb, t) in writers:
        t_ = tracer(b)
        def sig(op):
            out = set()
            for o in t_.operand(op):
                if o.kind == "call":
                    ct = b.blocks[o.data].term
                    roots = tuple(sorted({(k, d) for a in ct.get("args", []) for (k, d) in dep_closure(b, a) if k == "param"}))
                    out.add(("call", callee_decl(ct), roots))
                else:
                    out.add((o.kind, o.data))
            return out
        ent = sig(t["args"][1])
        purged = False
        for b2, t2 in b.calls():
            d = callee_decl(t2)
            if d in forgetters:
                idx = forgetters[d] - 1
                if idx < len(t2["args"]) and ent & sig(t2["args"][idx]):
                    purged = True
        ctx.check(purged or filt or swept, "%s/despawn-supersedes-removals" % short(b.path), site_of(b, bb),
                  "the entity is put into the despawn buffer but component removals buffered for it in earlier frames of the tick window stay in the removal buffer "
                  "(no RemovalBuffer method forgetting the entity is called here, and collect_removals does not filter despawned entities): the client applies the "
                  "despawn, then the removal record re-creates the entity (apply_removals spawns unknown entities) - a zombie",
                  "removals forgotten on despawn" if purged else "removals of every entity in the despawn buffer are forgotten" if swept else "removal writer filters despawned entities")


DEF = "bevy_replicon::shared::replication::deferred_entity::DeferredEntity"


def r10_reserved_entities_materialised(ctx):
    """Entity mapping inside a component may *reserve* a client entity (ClientReceiveCtx::get_mapped -> reserve_entity) and enter it into
    the entity map; the entity exists in the world only after `World::flush`. The next record of the same message looks the entity up
    (`world.get_entity_mut`) and fails otherwise, dropping the rest of the update message. Hence: every per-entity record handler ends
    in `DeferredEntity::flush` on every non-error path, and that flush always reaches `World::flush`."""
    F = ctx.F
    fl = ctx.fn("deferred_entity::DeferredEntity::<'w>::flush") if F.find("deferred_entity::DeferredEntity::<'w>::flush") else ctx.fn("DeferredEntity::<'w>::flush")
    wf = [bb for bb, t in fl.calls() if callee_decl(t).endswith("World::flush")]
    if ctx.check(len(wf) >= 1, "DeferredEntity::flush/flushes-world", site_of(fl), "DeferredEntity::flush does not call World::flush"):
        rets = fl.exits()
        skipping = [r for r in rets if fl.reachable_avoiding(r, (), removed_blocks=tuple(wf))]
        ctx.check(not skipping, "DeferredEntity::flush/flushes-world-unconditionally", site_of(fl, wf[0]),
                  "DeferredEntity::flush can return without World::flush: an entity reserved by entity mapping while a component was deserialised in place is in the "
                  "entity map but not in the world; its own record later in the same update message fails and the rest of the message is dropped")
        ap = [bb for bb, t in fl.calls() if callee_decl(t).endswith("DeferredChanges::apply")]
        ctx.check(bool(ap) and all(fl.dominates(w, a) for w in wf for a in ap), "DeferredEntity::flush/world-flushed-before-changes", site_of(fl), "buffered changes are applied before the world is flushed")
    n = 0
    for name in ("client::apply_changes", "client::apply_removals", "client::apply_mutations"):
        b = ctx.fn(name)
        fs = [bb for bb, t in b.calls() if callee_decl(t) == fl.path]
        uses = [bb for bb, t in b.calls() if callee_decl(t).endswith("DeferredEntity::<'w>::new")]
        if not uses:
            continue
        n += 1
        ok = bool(fs)
        def _cw(t):
            return callee_decl(t).rsplit("::", 1)[-1] in ("write", "consume_or_write", "remove") and "ComponentFns" in callee_decl(t)
        writes = [bb for bb, t in b.calls() if _cw(t)]
        # ... or inside a closure handed to a call of this function (apply_array(|message| { .. component_fns.write(..) .. }))
        for cbody in F.closures_of(b.path):
            if any(_cw(t) for _, t in cbody.calls()):
                for bb, t in b.calls():
                    for a_ in t.get("args", []):
                        for (k, d_) in dep_closure(b, a_):
                            if k == "stmt":
                                rv = b.blocks[d_[0]].stmts[d_[1]]["rvalue"]
                                if rv["rv"] == "agg" and rv["kind"] == "closure" and rv["closure"] == cbody.path and bb not in writes:
                                    writes.append(bb)
        if ok:
            res = [bb for bb, t in b.calls() if callee_decl(t).endswith("FromResidual::from_residual")]
            for w in writes:
                for e in b.exits():
                    if b.reachable_avoiding(e, (), start=w, removed_blocks=tuple(fs + res)):
                        ok = False
        ctx.check(ok and bool(writes), "%s/flushes-its-entity" % short(name), site_of(b),
                  "after (de)serialising a component into the entity the record handler can finish without an error and without flushing it (%d component call(s), %d flush call(s))" % (len(writes), len(fs)))
    ctx.check(n >= 3, "record-handlers", "", "only %d record handlers use DeferredEntity" % n)



def r11_record_counters(ctx):
    """Sections of the update message are framed by element counts kept next to the byte ranges (`mappings_len`, `despawns_len`,
    `components_len`, ...). Adjacent byte ranges are merged, so the number of ranges says nothing about the number of records: every
    function that adds a record must count it on *every* path (also the one that merges the range into the previous one), and the
    reset must zero every counter. A count that is too small makes the reader parse the remaining records as the next section."""
    F = ctx.F
    n = 0
    counters = set()
    for p, b in sorted(F.fns.items()):
        if "server::replication_messages" not in p or "::tests::" in p or not b.blocks or b.kind not in ("AssocFn", "Fn"):
            continue
        for bb, i, st in b.statements():
            if st["s"] != "assign" or not st["place"]["p"]:
                continue
            last = st["place"]["p"][-1]
            if not (isinstance(last, dict) and "name" in last and last["name"].endswith("_len")):
                continue
            n += 1
            counters.add((last.get("adt"), last["name"]))
            ctx.check(b.postdominates(bb, 0), "%s/%s-counted-on-every-path" % (short(p), last["name"]), "%s (%s)" % (b.path, st.get("span", b.span)),
                      "`%s` is updated only on some paths of `%s`: a record added on the other paths (e.g. merged into the previous byte range) is not counted, the section's "
                      "length prefix is too small and the reader takes the remaining records for the next section" % (last["name"], short(p)))
    ctx.check(n >= 5, "counters/sites", "", "only %d writes of element counters found in the message buffers" % n)
    # every counter is serialised by the writer (a counter nobody writes to the wire would make the check vacuous)
    snd = ctx.fn("replication_messages::updates::Updates::send")
    tr = tracer(snd)
    written = set()
    for bb, t in snd.calls():
        if callee_decl(t).endswith("postcard_utils::to_extend_mut"):
            for o in tr.operand(t["args"][0]):
                for e in o.path:
                    if e[0] == "f" and e[2] and e[2].endswith("_len"):
                        written.add(e[2])
    names = {c[1] for c in counters}
    ctx.check(names <= written | {"ids_len"} or bool(written & names), "counters/serialised", site_of(snd), "counters %s vs serialised %s" % (sorted(names), sorted(written)))


def r12_tick_scoped_buffers(ctx):
    """Removals and despawns are collected on every frame and consumed once per tick after their last reader (same rule as C01.R6):
    Bevy keeps removal events for two frames only, so a collector that runs on tick frames alone loses early removals of a window."""
    import rules.C01 as C01
    C01.r6_tick_buffers(ctx)


from rules.first_sight import r_first_sight

def r20_unconditional_mutators(ctx):
    """Mutators this property relies on always perform their effect (shared table in rules/mutators.py)."""
    import rules.mutators as mutators
    mutators.run_for(ctx, "C03")


def r_visibility_state_machine(ctx):
    """Visibility loss and gain are turned into a despawn and a full send for every call sequence (same rule as C08.R5: finite abstract
    interpretation of ClientVisibility plus the call protocol it assumes)."""
    import rules.C08 as C08
    C08.r5_state_machine(ctx)


RULES = [
    ("C03.R1", "one update message per client and tick (single writer of the update channel)", r1_one_update_message, 4, ["default", "all-features", "server-only"]),
    ("C03.R2", "update-message sections: writer, reader and flags agree on order, content and framing", r2_sections, 16, ["default", "all-features"]),
    ("C03.R3", "ServerUpdateTick is written only from a decoded update message (and the reset)", r3_update_tick, 4, ["default", "all-features", "client-only"]),
    ("C03.R4", "every mapped client entity carries the replication marker", r4_marker, 4, ["default", "all-features"]),
    ("C03.R5", "the two directions of the entity map are mutated together; despawn removes its mapping", r5_paired_map, 8, ["default", "all-features", "client-only"]),
    ("C03.R6", "despawn / removal / change records are filtered by exactly the not-hidden test", r6_exact_filters, 7, ["default", "all-features", "server-only"]),
    ("C03.R7", "first-sight completeness: a client that does not hold an entity yet (just authorized, just spawned, visibility gained) is sent every replicated component", r_first_sight, 14, ["default", "all-features", "server-only"]),
    ("C03.R8", "recycled buffers of the replication path are empty when reused (no records of an earlier tick or entity in a message)", r8_recycled_buffers, 6, ["default", "all-features", "server-only"]),
    ("C03.R9", "a despawn supersedes removal records buffered earlier in the tick window (no zombie re-created by a removal after the despawn)", r9_despawn_supersedes, 2, ["default", "all-features", "server-only"]),
    ("C03.R10", "entities reserved by entity mapping are materialised before the next record (handlers end in DeferredEntity::flush, which always flushes the world)", r10_reserved_entities_materialised, 6, ["default", "all-features", "client-only"]),
    ("C03.R11", "element counters that frame the message sections count every record on every path (also when byte ranges are merged)", r11_record_counters, 6, ["default", "all-features", "server-only"]),
    ("C03.R12", "removal/despawn buffers are filled every frame and consumed once per tick after their last reader (same rule as C01.R6)", r12_tick_scoped_buffers, 10, ["default", "all-features", "server-only"]),
    ("C03.R20", "mutators this property relies on always perform their effect (rules/mutators.py): no early return, no guard outside the allowed set", r20_unconditional_mutators, 3, ["default", "all-features"]),
    ("C03.R13", "visibility loss/gain become despawn/full send for every call sequence (same rule as C08.R5)", r_visibility_state_machine, 25, ["default", "all-features", "server-only"]),
]
THOROUGH_CONFIGS = ["default", "all-features", "server-only", "client-only"]
