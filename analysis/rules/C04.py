"""C04 - Server events never outrun the replication they depend on."""
from engine import site_of
from facts import callee_decl, callee_name
from flow import (tracer, short, required_outcomes, dep_closure, is_next_switch, switch_cond, edge_outcome, deep_origins, cmp_facts,
                  resolve_through_closure)
from schedule import schedule

EXPLANATION = (
    "R1: the server-side event chain send_or_buffer -> send_buffered -> resend_locally runs after send_replication in "
    "ServerSet::Send and buffered events are flushed only when the tick changed; buffered events leave the buffer only through send_buffered (closed set of callers of send_all and of the draining methods). R2: every dependent event is stamped with the "
    "recipient's own update tick, which send_messages sets to the current tick exactly when an update message is sent to that "
    "client; re-serialisation uses the requested tick. R3: on the client an event reaches user code only if it is independent, "
    "or its tick is not ahead of the update tick, or it was released from the queue by pop_if_le(update_tick); events ahead of "
    "the update tick go to the queue and nowhere else. R4: client events are received after receive_replication in the same "
    "set, triggers after events, with the current ServerUpdateTick. R5: an event whose entities cannot be mapped is refused: the wrapper succeeds only when the record of unmapped entities is empty, the record is erased only by the wrapper (closed writer set) and is tested and emptied before every exit, also when the inner (de)serialiser fails (D18, found and fixed).")
NOT_DECIDED = "that the stamped tick is late enough for every emission point and every interleaving of channels (histories)"
TRUSTED_BASE = ["Bevy runs chained systems in order and `after` constraints within one schedule", "BTreeMap::first_entry returns the smallest key"]

SE = "bevy_replicon::shared::event::server_event::ServerEvent"
TICKS = "bevy_replicon::shared::replication::client_ticks::ClientTicks"
UPD = "bevy_replicon::server::replication_messages::updates::Updates"
QUEUE = "bevy_replicon::shared::event::server_event::client_event_queue::ClientEventQueue"


def r1_server_order(ctx):
    S = schedule(ctx.F)
    names = ["server::event::send_or_buffer", "server::event::send_buffered", "server::event::resend_locally"]
    es = [S.system(n) for n in names]
    if not all(len(e) == 1 for e in es):
        ctx.bad("event-systems", "", "server event systems not registered exactly once: %s" % [len(e) for e in es], kind="anchor-missing")
        return
    es = [e[0] for e in es]
    chains = [e["chains"] for e in es]
    same = all(c and c[0][0] == chains[0][0][0] for c in chains) and [c[0][1] for c in chains] == sorted(c[0][1] for c in chains) and len({c[0][1] for c in chains}) == 3
    ctx.check(bool(same), "chain/send_or_buffer<send_buffered<resend_locally", "", "the three systems are not one ordered chain: %s" % chains)
    for e, n in zip(es, names):
        ctx.check(any(a.endswith("server::send_replication") for a in e["after"]), "%s/after-send_replication" % n.rsplit("::", 1)[-1], "",
                  "%s is not ordered after send_replication (events could be sent before the replication of the same tick)" % n)
        ctx.check("server::ServerSet::Send" in e["sets"] and e["schedule"].endswith("PostUpdate"), "%s/in-ServerSet::Send" % n.rsplit("::", 1)[-1], "", "sets %s" % e["sets"])
    sb = es[1]
    ctx.check(any("resource_changed<" in c and "ServerTick" in c for c in sb["run_if"]), "send_buffered/only-on-tick", "",
              "buffered events are flushed without waiting for a tick: %s" % sb["run_if"])
    sr = S.system("server::send_replication")
    ctx.check(len(sr) == 1 and any("resource_changed<" in c and "ServerTick" in c for c in sr[0]["run_if"]) and sr[0]["schedule"] == sb["schedule"],
              "send_replication/same-tick-gate", "", "send_replication and send_buffered are gated differently")
    # buffered (tick-dependent) events leave the buffer only through that system: a flush from anywhere else (an observer, a
    # connection handler) stamps them with a tick whose replication has not been sent yet
    F = ctx.F
    callers = sorted({b.path for b in F.real_fns() if "::tests::" not in b.path for _, t in b.calls() if callee_decl(t).endswith("BufferedServerEvents::send_all")})
    ctx.check(callers == ["bevy_replicon::server::event::send_buffered"], "BufferedServerEvents::send_all/only-from-send_buffered", "",
              "buffered events are flushed from %s" % [short(c) for c in callers], "single caller")
    drains = sorted({b.path for b in F.real_fns() if "::tests::" not in b.path and (b.j.get("impl_self_adt") or "").endswith("BufferedServerEvents")
                     for _, t in b.calls() if callee_decl(t).rsplit("::", 1)[-1] == "drain"})
    ctx.check(set(drains) <= {"bevy_replicon::shared::event::server_event::BufferedServerEvents::send_all", "bevy_replicon::shared::event::server_event::BufferedServerEvents::clear"},
              "BufferedServerEvents/drained-only-by-send_all-and-clear", "", "the buffer is drained by %s" % [short(d) for d in drains])


def r2_stamping(ctx):
    F = ctx.F
    bs = ctx.fn("server_event::BufferedServerEvent::send")
    tr = tracer(bs)
    gb = [(bb, t) for bb, t in bs.calls() if callee_decl(t).endswith("SerializedMessage::get_bytes")]
    ctx.check(len(gb) == 1, "BufferedServerEvent::send/get_bytes", site_of(bs), "%d get_bytes calls" % len(gb))
    for bb, t in gb:
        o = tr.operand(t["args"][1])
        ok = bool(o) and all(x.kind == "call" and callee_decl(bs.blocks[x.data].term) == TICKS + "::update_tick"
                             and all(y.kind == "param" and y.data == 4 for y in tr.operand(bs.blocks[x.data].term["args"][0])) for x in o)
        ctx.check(ok, "BufferedServerEvent::send/stamped-with-recipients-update-tick", site_of(bs, bb),
                  "the event is not stamped with update_tick() of the recipient's ClientTicks")
        snd = [(b2, t2) for b2, t2 in bs.calls() if callee_decl(t2).endswith("RepliconServer::send")]
        ctx.check(len(snd) == 1 and any(x.kind == "call" and x.data == bb for x in tr.operand(snd[0][1]["args"][3])), "BufferedServerEvent::send/sends-stamped-bytes", site_of(bs),
                  "the bytes sent are not the ones returned by get_bytes")
    ut = ctx.fn("client_ticks::ClientTicks::update_tick")
    o = tracer(ut).local(0)
    ctx.check(bool(o) and all(x.path and x.path[-1][2] == "update_tick" for x in o), "ClientTicks::update_tick/returns-field", site_of(ut), "update_tick() does not return the update_tick field")
    st = ctx.fn("client_ticks::ClientTicks::set_update_tick")
    w = [s for _, _, s in st.statements() if s["s"] == "assign" and s["place"]["p"] and isinstance(s["place"]["p"][-1], dict) and s["place"]["p"][-1].get("name") == "update_tick"]
    ctx.check(len(w) == 1 and all(x.kind == "param" and x.data == 2 for x in tracer(st).operand(w[0]["rvalue"]["op"])), "ClientTicks::set_update_tick/stores-argument", site_of(st), "")
    # writers of update_tick: only set_update_tick
    writers = set()
    for b in F.real_fns():
        if "::tests::" in b.path:
            continue
        for _, _, s in b.statements():
            if s["s"] == "assign" and s["place"]["p"]:
                last = s["place"]["p"][-1]
                if isinstance(last, dict) and last.get("adt") == TICKS and last.get("name") == "update_tick":
                    writers.add(b.path)
    ctx.check(writers == {st.path}, "ClientTicks.update_tick/single-writer", "", "update_tick is written by %s" % sorted(writers))
    sm = ctx.fn("server::send_messages")
    mtr = tracer(sm, follow_next=False)
    sets = [(bb, t) for bb, t in sm.calls() if callee_decl(t) == TICKS + "::set_update_tick"]
    sends = [(bb, t) for bb, t in sm.calls() if callee_decl(t) == UPD + "::send"]
    ctx.check(len(sets) == 1 and len(sends) == 1, "send_messages/set_update_tick", site_of(sm), "%d set_update_tick / %d Updates::send" % (len(sets), len(sends)))
    if sets and sends:
        (sbb, stt), (ubb, utt) = sets[0], sends[0]
        ctx.check(sm.dominates(sbb, ubb), "send_messages/tick-set-before-update-sent", site_of(sm, sbb), "the client's update tick is not set before its update message is sent")
        same_client = {(o.kind, o.data) for o in mtr.operand(stt["args"][0])} & {(o.kind, o.data) for o in mtr.operand(utt["args"][0])}
        ctx.check(bool(same_client), "send_messages/tick-of-same-client", site_of(sm, sbb), "the update tick is bumped on a different client than the one the message goes to")
        g1 = [(c.get("name"), o) for (_, c, o) in required_outcomes(F, sm, sbb) if c["kind"] == "boolcall"]
        ctx.check(any(n == UPD + "::is_empty" and o == {False} for n, o in g1) and len(g1) == 1, "send_messages/tick-bumped-iff-update-sent", site_of(sm, sbb),
                  "the update tick is bumped under %s (expected: exactly when the update message is non-empty)" % g1)
        v = tracer(sm).operand(stt["args"][1])
        ctx.check(bool(v) and all(x.kind == "param" and "RepliconTick" in sm.locals[x.data]["ty"] for x in v), "send_messages/tick-is-current-server-tick", site_of(sm, sbb), "the stored tick is not the server tick parameter")
        # mutations.send (which embeds update_tick in every mutate message) comes after
        ms = [bb for bb, t in sm.calls() if callee_decl(t).endswith("mutations::Mutations::send")]
        ctx.check(bool(ms) and all(not sm.reachable_avoiding(sbb, [(a, h) for h, bs_ in sm.loops_containing(sbb) for a in bs_ for (tt, _) in sm.succ[a] if tt == h], start=m) for m in ms),
                  "send_messages/update-before-mutations", site_of(sm), "the update tick is bumped after the mutate message of the same client was built")
    gb = ctx.fn("server_event::SerializedMessage::get_bytes")
    gtr = tracer(gb)
    ser = [(bb, t) for bb, t in gb.calls() if callee_decl(t).endswith("postcard::ser::to_slice") or callee_decl(t).endswith("postcard_utils::to_extend_mut")]
    ok = len(ser) >= 2 and all(all(x.kind == "param" and x.data == 2 for x in gtr.operand(t["args"][0])) for _, t in ser)
    ctx.check(ok, "get_bytes/serialises-requested-tick", site_of(gb), "a tick other than the requested update tick is serialised")
    # reuse of the cached bytes only when the cached tick equals the requested one
    clones = [bb for bb, t in gb.calls() if callee_decl(t).endswith("Clone::clone") and any("Bytes" in a for a in t["callee"]["args"])]
    guarded = []
    for bb in clones:
        for (s_, c, o) in required_outcomes(F, gb, bb):
            if c["kind"] == "cmp" and c["rel"] in ("==", "!="):
                sides = [gtr.operand(c["a"]), gtr.operand(c["b"])]
                if any(all(x.kind == "param" and x.data == 2 for x in s) for s in sides) and ((c["rel"] == "==" and o == {True}) or (c["rel"] == "!=" and o == {False})):
                    guarded.append(bb)
    res_clones = [bb for bb in clones if any(c["kind"] == "variant" and o == {"Resolved"} for (_, c, o) in required_outcomes(F, gb, bb))]
    ctx.check(all(bb in guarded for bb in res_clones) and bool(res_clones), "get_bytes/cached-bytes-only-for-same-tick", site_of(gb),
              "already resolved bytes are reused without comparing their tick with the requested one")


def r3_client_gate(ctx):
    F = ctx.F
    rt = ctx.fn("server_event::ServerEvent::receive_typed")
    tr = tracer(rt, follow_next=False)
    sends = [(bb, t) for bb, t in rt.calls() if callee_decl(t).endswith("Events::<E>::send")]
    pops = [(bb, t) for bb, t in rt.calls() if callee_decl(t).endswith("ClientEventQueue::<E>::pop_if_le")]
    ins = [(bb, t) for bb, t in rt.calls() if callee_decl(t).endswith("ClientEventQueue::<E>::insert")]
    recv = [(bb, t) for bb, t in rt.calls() if callee_decl(t).endswith("RepliconClient::receive")]
    ctx.check(len(sends) >= 2 and len(pops) == 1 and len(ins) == 1 and len(recv) == 1, "receive_typed/shape", site_of(rt),
              "%d sends / %d pop_if_le / %d insert / %d receive" % (len(sends), len(pops), len(ins), len(recv)))
    if not (pops and ins and recv):
        return
    ut_param = [i for i in range(1, rt.arg_count + 1) if rt.locals[i]["ty"].endswith("RepliconTick")]
    ptr = tracer(rt)
    ctx.check(all(x.kind == "param" and x.data in ut_param for x in ptr.operand(pops[0][1]["args"][1])), "receive_typed/queue-released-up-to-update-tick", site_of(rt, pops[0][0]),
              "queued events are released against something other than the client's update tick")
    # the gate comparison
    gate = None
    for b in rt.blocks:
        if b.idx in rt.reach and b.term["t"] == "switch":
            c = switch_cond(rt, b.idx)
            if c["kind"] == "cmp" and c["rel"] in (">", "<", ">=", "<="):
                a, bside = ptr.operand(c["a"]), ptr.operand(c["b"])
                if any(x.kind == "param" and x.data in ut_param for x in a | bside):
                    gate = (b.idx, c)
    ctx.check(gate is not None, "receive_typed/tick-gate", site_of(rt), "no comparison of the event's tick with the update tick found")
    if gate is None:
        return
    gbb, gc = gate
    # edges: ahead (tick > update_tick) and not-ahead
    ahead_edges, ok_edges = [], []
    for (tb, lab) in rt.succ[gbb]:
        out = edge_outcome(F, rt, gbb, lab, gc)
        rel, a, b = cmp_facts(gc, out)
        a_is_ut = all(x.kind == "param" and x.data in ut_param for x in ptr.operand(a))
        b_is_ut = all(x.kind == "param" and x.data in ut_param for x in ptr.operand(b))
        # canonical rel in {<, <=, ==, !=}: `update_tick < tick` means ahead
        ahead = (rel == "<" and a_is_ut and not b_is_ut)
        (ahead_edges if ahead else ok_edges).append((gbb, tb, lab))
    ctx.check(len(ahead_edges) == 1 and len(ok_edges) == 1, "receive_typed/gate-orientation", site_of(rt, gbb),
              "the gate is not `tick > update_tick` (ahead edges %s)" % ahead_edges)
    tick_src = [x for side in (gc["a"], gc["b"]) for x in ptr.operand(side) if x.kind == "call"]
    ctx.check(bool(tick_src) and all(callee_decl(rt.blocks[x.data].term).endswith("postcard_utils::from_buf") and x.data in {bb for bb, t in rt.calls() if any("RepliconTick" in a for a in t["callee"].get("args", []))} for x in tick_src),
              "receive_typed/gate-uses-decoded-tick", site_of(rt, gbb), "the compared tick is not the one decoded from the message")
    # independent switch
    ind_edges = []
    for b in rt.blocks:
        if b.idx in rt.reach and b.term["t"] == "switch":
            d = ptr.operand(b.term["discr"]) | deep_origins(rt, b.term["discr"])
            if any(x.path and x.path[-1][0] == "f" and x.path[-1][2] == "independent" for x in d):
                c = switch_cond(rt, b.idx)
                for (tb, lab) in rt.succ[b.idx]:
                    out = edge_outcome(F, rt, b.idx, lab, c)
                    # edge_outcome normalises negations: True <=> `self.independent` holds
                    if out is True:
                        ind_edges.append((b.idx, tb, lab))
    # classify delivery sites by where the delivered bytes come from: released from the queue, or read from the network this frame
    def _from(bb, t, src_bb):
        deps = dep_closure(rt, t["args"][1])
        # the event is the result of deserialize(.., &mut message): follow the message argument of that call
        more = set()
        for (k, d) in deps:
            if k == "call":
                for a_ in rt.blocks[d].term.get("args", []):
                    more |= dep_closure(rt, a_)
        return ("call", src_bb) in (deps | more)
    queue_sends = [(bb, t) for bb, t in sends if _from(bb, t, pops[0][0])]
    loop_sends = [(bb, t) for bb, t in sends if (bb, t) not in queue_sends]
    ctx.check(bool(queue_sends) and bool(loop_sends), "receive_typed/two-delivery-paths", site_of(rt), "expected a delivery of released queue entries and a delivery of newly received events")
    # order within the channel: what was queued earlier (older ticks) is delivered before anything received in this frame
    late = [bb for bb, t in queue_sends if any(rt.reachable_avoiding(bb, [], start=lb) for lb, _ in loop_sends) or rt.reachable_avoiding(bb, [], start=recv[0][0])]
    ctx.check(not late, "receive_typed/queue-released-before-new-events", site_of(rt, late[0]) if late else site_of(rt, pops[0][0]),
              "events released from the queue can be delivered after events received in the same frame: two events of one type sent in order on an ordered channel are observed "
              "out of order when the first had to wait for its update message")
    for bb, t in loop_sends:
        only = not rt.reachable_avoiding(bb, ind_edges + ok_edges, start=recv[0][0])
        ctx.check(only and ind_edges, ctx.nth("receive_typed/delivery-gated"), site_of(rt, bb),
                  "an event received from the network can reach user code without being independent or having a tick <= the update tick")
    for bb, t in queue_sends:
        deps = dep_closure(rt, t["args"][1])
        ctx.check(("call", pops[0][0]) in deps, ctx.nth("receive_typed/queued-delivery-from-pop_if_le"), site_of(rt, bb),
                  "an event delivered before the receive loop does not come from pop_if_le(update_tick)")
    # ahead edge leads only to queue.insert, never to a send
    for (a, tb, lab) in ahead_edges:
        leak = [bb for bb, t in loop_sends if rt.reachable_avoiding(bb, [(x, h) for h, bs in rt.loops_containing(gbb) for x in bs for (tt, _) in rt.succ[x] if tt == h], start=tb)]
        ctx.check(not leak, "receive_typed/ahead-events-not-delivered", site_of(rt, gbb), "an event ahead of the update tick is delivered in the same iteration")
        ctx.check(rt.dominates(tb, ins[0][0]) or tb == ins[0][0] or rt.reachable_avoiding(ins[0][0], (), start=tb), "receive_typed/ahead-events-queued", site_of(rt, ins[0][0]), "events ahead of the update tick are not queued")
    g = required_outcomes(F, rt, ins[0][0])
    on_ahead = any(s_ == gbb for (s_, c, o) in g)
    ctx.check(on_ahead, "receive_typed/insert-only-when-ahead", site_of(rt, ins[0][0]), "queue.insert is not control-dependent on the tick gate")
    it = ins[0][1]
    ctx.check(ptr.operand(it["args"][1]) == {x for side in (gc["a"], gc["b"]) for x in ptr.operand(side) if not (x.kind == "param")} or
              bool(ptr.operand(it["args"][1]) & {x for side in (gc["a"], gc["b"]) for x in ptr.operand(side)}), "receive_typed/queued-under-its-tick", site_of(rt, ins[0][0]),
              "the event is queued under a different tick than the one it carries")
    # pop_if_le: releases the smallest tick only when it is <= update_tick
    pl = ctx.fn("client_event_queue::ClientEventQueue::<E>::pop_if_le")
    ptr2 = tracer(pl)
    fe = [bb for bb, t in pl.calls() if callee_decl(t).endswith("::first_entry")]
    rem = [bb for bb, t in pl.calls() if callee_decl(t).endswith("::remove_entry") or callee_decl(t).endswith("::remove")]
    ctx.check(len(fe) == 1 and len(rem) == 1, "pop_if_le/first-entry", site_of(pl), "pop_if_le does not take the first (smallest) entry")
    if fe and rem:
        okg = False
        for (s_, c, o) in required_outcomes(F, pl, rem[0]):
            if c["kind"] == "cmp" and len(o) == 1:
                rel, a, b = cmp_facts(c, next(iter(o)))
                a_ut = all(x.kind == "param" and x.data == 2 for x in ptr2.operand(a))
                b_ut = all(x.kind == "param" and x.data == 2 for x in ptr2.operand(b))
                key_side = b if a_ut else a
                from_key = any(k == "call" and callee_decl(pl.blocks[d].term).endswith("::key") for (k, d) in dep_closure(pl, key_side))
                # released iff key <= update_tick
                if from_key and ((rel == "<=" and b_ut) or (rel in ("<", "<=") and b_ut)):
                    okg = True
        ctx.check(okg, "pop_if_le/released-iff-key<=update_tick", site_of(pl, rem[0]), "the entry is removed without `key <= update_tick` holding")


def r4_client_order(ctx):
    F = ctx.F
    S = schedule(F)
    rc = S.system("client::event::receive")
    tg = S.system("client::event::trigger")
    rr = S.system("client::receive_replication")
    if not (len(rc) == 1 and len(tg) == 1 and len(rr) == 1):
        ctx.bad("client-systems", "", "client receive systems not registered exactly once", kind="anchor-missing")
        return
    rc, tg, rr = rc[0], tg[0], rr[0]
    ctx.check(any(a.endswith("client::receive_replication") for a in rc["after"]) and rc["schedule"] == rr["schedule"] and set(rc["sets"]) & set(rr["sets"]),
              "client::event::receive/after-receive_replication", "", "events are not received after replication in the same set: after=%s" % rc["after"])
    ctx.check(rc["chains"] and tg["chains"] and rc["chains"][0][0] == tg["chains"][0][0] and rc["chains"][0][1] < tg["chains"][0][1], "client::event::trigger/after-receive", "",
              "triggers are not chained after event reception")
    rv = ctx.fn("client::event::receive")
    tr = tracer(rv)
    calls = [(bb, t) for bb, t in rv.calls() if callee_decl(t).endswith("ServerEvent::receive")]
    ctx.check(len(calls) == 1, "client::event::receive/call", site_of(rv), "")
    for bb, t in calls:
        o = tr.operand(t["args"][-1])
        ok = bool(o) and all(x.kind == "param" and "ServerUpdateTick" in rv.locals[x.data]["ty"] for x in o)
        ctx.check(ok, "client::event::receive/passes-current-update-tick", site_of(rv, bb), "the gate tick is not the ServerUpdateTick resource")


def unmapped_record_does_not_leak(ctx, fn_suffix, label):
    """The record of entities that could not be mapped is per event: when the (de)serialising wrapper returns - also when the inner
    function failed - the record is known to be empty (tested empty, or cleared). A left-over entry makes the *next* event of the
    frame look unmappable, so a perfectly valid event is refused."""
    F = ctx.F
    b = ctx.fn(fn_suffix)
    tr = tracer(b)

    def on_record(op):
        return any(any(e[0] == "f" and e[2] == "invalid_entities" for e in x.path) for x in tr.operand(op))
    clears = [bb for bb, t in b.calls() if callee_decl(t).rsplit("::", 1)[-1] in ("clear", "drain", "take") and t.get("args") and on_record(t["args"][0])]
    empties = []
    for bb in b.reach:
        if b.blocks[bb].term["t"] != "switch":
            continue
        c = switch_cond(b, bb)
        if c["kind"] == "boolcall" and c["name"].endswith("::is_empty") and on_record(c["args"][0]):
            for (tb, lab) in b.succ[bb]:
                if edge_outcome(F, b, bb, lab, c) is True:
                    empties.append(tb)
    ctx.check(bool(clears) and bool(empties), "%s/checks-and-clears-the-record" % label, site_of(b), "%d clears / %d emptiness tests of invalid_entities" % (len(clears), len(empties)))
    leaking = [e for e in b.exits() if b.reachable_avoiding(e, (), removed_blocks=tuple(clears + empties))]
    ctx.check(not leaking, "%s/record-does-not-outlive-the-event" % label, site_of(b),
              "`%s` can return (e.g. through `?` when the inner function fails) without the record of unmapped entities having been tested empty or cleared: entries recorded for this "
              "event make the next event of the frame look unmappable, and a valid event is refused" % short(b.path))


def success_only_when_all_mapped(ctx, fn_suffix, label, msg):
    """Every result of the wrapper that may be a success (anything written to the return place that is not an `Err(..)` built here)
    lies behind the `record is empty` outcome."""
    F = ctx.F
    b = ctx.fn(fn_suffix)
    tr = tracer(b)
    sites = []
    for bb, i, st in b.statements():
        if st["s"] == "assign" and st["place"] == {"l": 0, "p": []}:
            rv = st["rvalue"]
            if rv["rv"] == "agg" and rv.get("variant") == "Err":
                continue
            sites.append(bb)
    for bb, t in b.calls():
        d = t.get("dest")
        if d and d == {"l": 0, "p": []} and not callee_decl(t).endswith("FromResidual::from_residual"):
            sites.append(bb)
    ctx.check(bool(sites), "%s/success-sites" % label, site_of(b), "no result site found")
    for bb in sorted(set(sites)):
        g = [(c, o) for (_, c, o) in required_outcomes(F, b, bb) if c["kind"] == "boolcall" and c["name"].endswith("::is_empty")]
        ok = any(o == {True} and any(x.path and x.path[-1][2] == "invalid_entities" for x in tr.operand(c["args"][0])) for c, o in g)
        ctx.check(ok, ctx.nth("%s/ok-only-when-all-mapped" % label), site_of(b, bb), msg)


def r5_mapping(ctx):
    F = ctx.F
    de = ctx.fn("server_event::ServerEvent::deserialize")
    tr = tracer(de)
    success_only_when_all_mapped(ctx, "server_event::ServerEvent::deserialize", "ServerEvent::deserialize", "an event with unmapped entities is accepted")
    for ctxname in ("ClientReceiveCtx", "ClientSendCtx"):
        gm = [b for p, b in F.fns.items() if p.startswith("<bevy_replicon::shared::event::ctx::%s<'_> as bevy_ecs::entity::map_entities::EntityMapper>::get_mapped" % ctxname)]
        if not gm:
            ctx.bad("%s::get_mapped" % ctxname, "", "EntityMapper impl not found", kind="anchor-missing")
            continue
        b = gm[0]
        btr = tracer(b)
        pushes = [(bb, t) for bb, t in b.calls() if callee_decl(t).endswith("Vec::<T, A>::push") and any(x.path and x.path[-1][2] == "invalid_entities" for x in btr.operand(t["args"][0]))]
        okp = False
        for bb, t in pushes:
            g = [(c, o) for (_, c, o) in required_outcomes(F, b, bb) if c["kind"] == "variant"]
            if any(o == {"None"} for c, o in g) and all(x.kind == "param" and x.data == 2 for x in btr.operand(t["args"][1])):
                okp = True
        ctx.check(okp, "%s::get_mapped/records-unmapped-entity" % ctxname, site_of(b), "an entity without a mapping is not recorded as invalid")
    # the record of unmapped entities only grows until the refuse check has looked at it: closed set of erasing writers
    CTXS = ("bevy_replicon::shared::event::ctx::ClientReceiveCtx", "bevy_replicon::shared::event::ctx::ClientSendCtx")
    ERASE = ("clear", "drain", "truncate", "pop", "retain", "remove", "swap_remove", "set_len", "take", "replace", "split_off", "dedup", "append")
    n_er = 0
    for p, b in F.fns.items():
        if "::tests::" in p or not p.startswith(("bevy_replicon::", "<bevy_replicon::")) or not b.blocks:
            continue
        btr = None
        for bb, t in b.calls():
            m = callee_decl(t).rsplit("::", 1)[-1]
            if m not in ERASE or not t.get("args"):
                continue
            btr = btr or tracer(b)
            hit = any(any(e[0] == "f" and e[2] == "invalid_entities" and e[3] in CTXS for e in x.path) for a in t["args"][:1] for x in btr.operand(a))
            if not hit:
                continue
            n_er += 1
            after_check = any(c["kind"] == "boolcall" and c["name"].endswith("::is_empty") and o == {False}
                              and any(x.path and x.path[-1][2] == "invalid_entities" for x in btr.operand(c["args"][0]))
                              for (_, c, o) in required_outcomes(F, b, bb))
            ctx.check(after_check, "%s/invalid_entities.%s-only-after-refusal" % (short(p), m), site_of(b, bb),
                      "the record of entities that could not be mapped is erased (`%s`) before the map-or-refuse check has seen it: an event or trigger that refers to an "
                      "entity the receiver does not know is delivered with a placeholder instead of being withheld" % m)
        for bb, i, st in b.statements():
            if st["s"] == "assign" and st["place"]["p"] and any(isinstance(e, dict) and e.get("name") == "invalid_entities" and e.get("adt") in CTXS for e in st["place"]["p"]):
                if b.kind in ("Fn", "AssocFn", "Closure") and not (st["rvalue"]["rv"] == "agg"):
                    n_er += 1
                    ctx.bad("%s/invalid_entities-overwritten" % short(p), "%s (%s)" % (b.path, st.get("span", "")), "the record of unmapped entities is overwritten")
    ctx.check(n_er >= 2, "invalid_entities/erasing-writers", "", "only %d erasing writers of the unmapped-entity records found (expected the two after-refusal clears)" % n_er)
    unmapped_record_does_not_leak(ctx, "server_event::ServerEvent::deserialize", "ServerEvent::deserialize")
    # refusal relies on the map holding no stale entries: a despawn record always unmaps (same rule as C03.R5)
    import rules.C03 as C03
    C03.apply_despawn_unmaps(ctx)
    td = ctx.fn("server_trigger::trigger_deserialize")
    ttr = tracer(td)
    pushes = [(bb, t) for bb, t in td.calls() if callee_decl(t).endswith("Vec::<T, A>::push")]
    ok = bool(pushes) and all(all(x.kind == "call" and callee_decl(td.blocks[x.data].term).endswith("EntityMapper::get_mapped") for x in ttr.operand(t["args"][1])) for bb, t in pushes)
    ctx.check(ok, "server_trigger::trigger_deserialize/targets-mapped", site_of(td), "trigger targets are used without mapping them to client entities")
    for bb, t in td.calls():
        if callee_decl(t).endswith("EntityMapper::get_mapped"):
            src = ttr.operand(t["args"][1])
            ctx.check(bool(src) and all(x.kind == "call" and callee_decl(td.blocks[x.data].term).endswith("deserialize_entity") for x in src), "server_trigger::trigger_deserialize/maps-decoded-entity", site_of(td, bb), "")
    dm = ctx.fn("server_event::default_deserialize_mapped")
    ctx.check(any(callee_decl(t).endswith("MapEntities::map_entities") for _, t in dm.calls()), "default_deserialize_mapped/maps", site_of(dm), "mapped events are not mapped")


def r20_unconditional_mutators(ctx):
    """Mutators this property relies on always perform their effect (shared table in rules/mutators.py)."""
    import rules.mutators as mutators
    mutators.run_for(ctx, "C04")


RULES = [
    ("C04.R1", "server: events are flushed after replication of the same tick, only on ticks", r1_server_order, 8, ["default", "all-features", "server-only"]),
    ("C04.R2", "events are stamped with the recipient's update tick, bumped exactly when an update message is sent", r2_stamping, 10, ["default", "all-features", "server-only"]),
    ("C04.R3", "client gate: deliver only independent / not-ahead / released-from-queue events; ahead events are queued", r3_client_gate, 10, ["default", "all-features", "client-only"]),
    ("C04.R4", "client: events after replication, triggers after events, gate uses the current update tick", r4_client_order, 4, ["default", "all-features", "client-only"]),
    ("C04.R5", "events with unmappable entities are refused", r5_mapping, 6, ["default", "all-features"]),
    ("C04.R20", "mutators this property relies on always perform their effect (rules/mutators.py): no early return, no guard outside the allowed set", r20_unconditional_mutators, 3, ["default", "all-features"]),
]
THOROUGH_CONFIGS = ["default", "all-features", "server-only", "client-only"]
