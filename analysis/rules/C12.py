"""C12 - Tick-confirmation queries agree with what was actually received.

Decided: every shift amount in the confirmation windows is in range (R1), the ring keeps its
length (R2), ticks are ordered only through the wrapping comparison (R3), and the
fully-received notification is wired to the ring's own verdict (R4)."""
import re

from engine import site_of
from facts import callee_decl, callee_name, op_place
from flow import tracer, short, required_outcomes, cmp_facts, switch_cond, deep_origins, dep_closure
from bounds import bounded_below, const_value, guard_bound
from callgraph import callgraph

EXPLANATION = (
    "R1: for every shift (MIR Shl/Shr, wrapping_/overflowing_/unchecked_ shift calls) in ConfirmHistory and "
    "ServerMutateTicks the amount is proven < bit width by a constant, a dominating non-debug guard, bounded "
    "call sites of a crate-private function, or a named lemma whose premises are checked structurally "
    "(L-window, L-ring); checked_/unbounded_ shifts are total. R2: the only length-changing operations on "
    "ServerMutateTicks.ticks are balanced pop_back/push_front pairs, clear followed by resize(64) and "
    "construction from a 64-element array. R3: PartialOrd delegates to the wrapping Ord::cmp, tick arithmetic "
    "cannot overflow-panic, the window code never compares raw counters; the body of RepliconTick::cmp compares the wrapping difference of the two counters with constants and never the counters with each other. R4: MutateTickReceived is sent "
    "exactly where ServerMutateTicks::confirm returned true, once per applied mutate message, with that "
    "message's own tick and count; tracking flag agreement between server writer and client reader.")
NOT_DECIDED = "equivalence of the masks/ring with a set model over all confirmation sequences; exactly-once under loss patterns"
TRUSTED_BASE = ["VecDeque/iterator contracts of std", "checked_shl/unbounded_shl are total"]

WINDOW_TYPES = ("bevy_replicon::client::confirm_history::ConfirmHistory",
                "bevy_replicon::client::server_mutate_ticks::ServerMutateTicks")
TICK = "bevy_replicon::shared::replicon_tick::RepliconTick"


def _bits(ty):
    m = re.search(r"\b[ui](8|16|32|64|128)\b", ty or "")
    if m:
        return int(m.group(1))
    if re.search(r"\b[ui]size\b", ty or ""):
        return 64
    return None


def _op_ty(body, op):
    if op.get("k") == "const":
        return op.get("ty")
    pl = op_place(op)
    if pl is None:
        return None
    ty = body.locals[pl["l"]]["ty"]
    for e in pl["p"]:
        if isinstance(e, dict) and "ty" in e:
            ty = e["ty"]
    return ty


def window_fns(ctx):
    out = []
    for b in ctx.F.real_fns():
        root = ctx.F.fns.get(b.j.get("closure_root", ""), b)
        if (root.j.get("impl_self_adt") in WINDOW_TYPES) and "::tests::" not in b.path:
            out.append(b)
    return out


def shift_sites(body):
    """(bb, kind, value_operand, amount_operand, description)"""
    for bb, i, s in body.statements():
        if s["s"] != "assign":
            continue
        rv = s["rvalue"]
        if rv["rv"] == "bin" and rv["op"] in ("Shl", "Shr", "ShlUnchecked", "ShrUnchecked"):
            yield bb, "op", rv["a"], rv["b"], rv["op"]
    for bb, t in body.calls():
        decl = callee_decl(t)
        m = re.search(r"::(wrapping|overflowing|unchecked|checked|unbounded|strict)_(shl|shr)$", decl)
        if m and decl.startswith("core::num::"):
            yield bb, m.group(1), t["args"][0], t["args"][1], decl


# ------------------------------------------------------------------ lemmas
def lemma_ring(ctx, body, bb, amount):
    """L-ring: the amount is the `enumerate` index over ServerMutateTicks.ticks, whose length is 64 (R2)."""
    tr = tracer(body)
    for o in tr.operand(amount):
        if not (o.kind == "call" and o.path[:2] == (("item",), ("f", 0, None, None))):
            # tuple field 0 of the item of an iterator
            if not (o.kind == "call" and len(o.path) >= 2 and o.path[0] == ("item",) and o.path[1][0] == "f" and o.path[1][1] == 0):
                return None
        ct = body.blocks[o.data].term
        if not callee_decl(ct).endswith("Iterator::enumerate"):
            return None
        src = tr.operand(ct["args"][0])
        ok = False
        for s in src:
            if s.kind == "call" and callee_decl(body.blocks[s.data].term).endswith("VecDeque::<T, A>::iter"):
                recv = tr.operand(body.blocks[s.data].term["args"][0])
                if all(r.path and r.path[-1][0] == "f" and r.path[-1][2] == "ticks" and r.path[-1][3] == WINDOW_TYPES[1] for r in recv):
                    ok = True
        if not ok:
            return None
    return "L-ring: index of enumerate() over ServerMutateTicks.ticks (length 64 by C12.R2)"


def _is_field(tr, op, adt, name):
    os_ = tr.operand(op)
    return bool(os_) and all(o.path and o.path[-1][0] == "f" and o.path[-1][2] == name and o.path[-1][3] == adt for o in os_)


def _is_param(tr, op, idx):
    os_ = tr.operand(op)
    return bool(os_) and all(o.kind == "param" and o.data == idx and not o.path for o in os_)


def lemma_window(ctx, body, bb, amount):
    """L-window: amount = last - end' with start in (last-64, last], end' = min(end, last), start <= end.
    Premises (all checked on the MIR): (p1) a dominating guard excludes `start <= last - 64`;
    (p2) a dominating guard excludes `start > last`; (p3) the subtrahend is either the `end` parameter under
    `end < last` or `last` itself; (p4) the documented precondition `start <= end` is asserted."""
    tr = tracer(body)
    adt = WINDOW_TYPES[0]
    origins = tr.operand(amount)
    if len(origins) != 1:
        return None
    o = next(iter(origins))
    if o.kind != "call" or o.path:
        return None
    ct = body.blocks[o.data].term
    if not (callee_name(ct).startswith("<" + TICK + " as core::ops::arith::Sub>::sub")):
        return None
    minuend, subtrahend = ct["args"]
    if not _is_field(tr, minuend, adt, "last_tick"):
        return None
    # identify start/end parameters: two RepliconTick params after self
    tick_params = [i for i in range(2, body.arg_count + 1) if body.locals[i]["ty"] == TICK]
    if len(tick_params) != 2:
        return None
    start, end = tick_params
    # (p3) subtrahend origins: param end (guarded by end < last) or self.last_tick
    sub_o = tr.operand(subtrahend)
    for so in sub_o:
        if so.kind == "param" and so.data == end and not so.path:
            continue
        if so.path and so.path[-1][0] == "f" and so.path[-1][2] == "last_tick":
            continue
        return None
    if any(so.kind == "param" and so.data == end for so in sub_o):
        # the assignment from `end` must be under `end < last`
        okp3 = False
        for dbb, i, s in body.statements():
            if s["s"] == "assign" and s["rvalue"]["rv"] == "use" and _is_param(tr, s["rvalue"]["op"], end) \
                    and not s["place"]["p"] and any(so for so in [1]):
                for (sbb, cond, outs) in required_outcomes(ctx.F, body, dbb):
                    if cond["kind"] == "cmp" and len(outs) == 1:
                        rel, a, b = cmp_facts(cond, next(iter(outs)))
                        if rel in ("<", "<=") and _is_param(tr, a, end) and _is_field(tr, b, adt, "last_tick"):
                            okp3 = True
        if not okp3:
            return None
    p1 = p2 = False
    for (sbb, cond, outs) in required_outcomes(ctx.F, body, bb):
        if cond["kind"] != "cmp" or len(outs) != 1:
            continue
        rel, a, b = cmp_facts(cond, next(iter(outs)))
        # p2: start <= last  (i.e. not start > last)
        if rel in ("<=", "<") and _is_param(tr, a, start) and _is_field(tr, b, adt, "last_tick"):
            p2 = True
        # p1: last - 64 < start   (i.e. not start <= last - 64)
        if rel == "<" and _is_param(tr, b, start):
            for ao in tr.operand(a):
                if ao.kind == "call":
                    st = body.blocks[ao.data].term
                    if "Sub<u32>>::sub" in callee_name(st) and _is_field(tr, st["args"][0], adt, "last_tick") \
                            and (const_value(body, st["args"][1]) or 10**9) <= 64:
                        p1 = True
    # p4: debug assertion start <= end present
    p4 = False
    for b in body.blocks:
        if b.idx in body.reach and b.term["t"] == "switch":
            c = switch_cond(body, b.idx)
            if c["kind"] == "cmp":
                for out in (True, False):
                    rel, a, bb_ = cmp_facts(c, out)
                    if rel == "<=" and _is_param(tr, a, start) and _is_param(tr, bb_, end):
                        p4 = True
    if p1 and p2 and p4:
        return "L-window: offset = last - min(end,last) with last-64 < start <= last and start <= end (premises p1-p4 verified)"
    return None


LEMMAS = [("L-ring", lemma_ring), ("L-window", lemma_window)]


def r1_shift_bounds(ctx):
    F = ctx.F
    fns = window_fns(ctx)
    if len(fns) < 10:
        ctx.bad("anchor", "", "confirmation-window types not found", kind="anchor-missing")
        return
    for body in fns:
        for bb, kind, val, amount, desc in shift_sites(body):
            bits = _bits(_op_ty(body, val)) or 64
            key = "%s/%s" % (short(body.path), short(desc).split("::")[-1])
            if kind in ("checked", "unbounded"):
                ctx.ok(key, site_of(body, bb), "total shift (%s)" % kind)
                continue
            ok, why = bounded_below(F, body, bb, amount, bits)
            if ok:
                ctx.ok(key, site_of(body, bb), why)
                continue
            for name, lem in LEMMAS:
                r = lem(ctx, body, bb, amount)
                if r:
                    ctx.ok(key + "/" + name, site_of(body, bb), r)
                    break
            else:
                what = "silently shifts by amount mod %d (stale bits survive a gap >= %d ticks)" % (bits, bits) if kind == "wrapping" \
                    else "panics in checked builds / yields a wrong mask otherwise"
                ctx.bad(key, site_of(body, bb), "shift amount not proven < %d: %s; an out-of-range amount %s" % (bits, why, what))


# ---------------------------------------------------------------- R2 ring
LEN_CHANGING = {"push_back", "push_front", "pop_back", "pop_front", "clear", "resize", "resize_with", "truncate", "insert",
                "remove", "drain", "extend", "append", "retain", "retain_mut", "split_off", "swap_remove_back",
                "swap_remove_front", "shrink_to", "reserve"}


def r2_ring_length(ctx):
    F = ctx.F
    adt = WINDOW_TYPES[1]
    ctx.adt(adt)
    sites = []
    for body in F.real_fns():
        if "::tests::" in body.path:
            continue
        tr = tracer(body)
        for bb, t in body.calls():
            decl = callee_decl(t)
            if "VecDeque" not in decl and "Extend" not in decl:
                continue
            m = decl.rsplit("::", 1)[-1]
            if m not in LEN_CHANGING or not t["args"]:
                continue
            recv = tr.operand(t["args"][0])
            if any(r.path and any(e[0] == "f" and e[2] == "ticks" and e[3] == adt for e in r.path) for r in recv):
                sites.append((body, bb, m, t))
    by_fn = {}
    for body, bb, m, t in sites:
        by_fn.setdefault(body.path, []).append((bb, m, t))
    for path, lst in sorted(by_fn.items()):
        body = F.fns[path]
        used = set()
        for bb, m, t in lst:
            key = "%s/%s" % (short(path), m)
            if m == "pop_back" or m == "pop_front":
                partner = "push_front" if m == "pop_back" else "push_back"
                ps = [(b2, m2) for (b2, m2, _) in lst if m2 == partner and body.dominates(bb, b2) and body.postdominates(b2, bb)
                      and {h for h, bs in body.loops_containing(bb)} == {h for h, bs in body.loops_containing(b2)}]
                ctx.check(bool(ps), key, site_of(body, bb), "pop without a matching push on every path: the ring would shrink",
                          "balanced with %s at bb%s" % (partner, [p[0] for p in ps]))
                used |= {p[0] for p in ps}
            elif m == "clear":
                ps = [(b2, t2) for (b2, m2, t2) in lst if m2 == "resize" and body.dominates(bb, b2) and body.postdominates(b2, bb)]
                good = [b2 for (b2, t2) in ps if const_value(body, t2["args"][1]) == 64]
                ctx.check(bool(good), key, site_of(body, bb), "clear() not followed on every path by resize(64, ..)",
                          "followed by resize(64) at bb%s" % good)
                used |= set(good)
        for bb, m, t in lst:
            if m in ("pop_back", "pop_front", "clear") or bb in used:
                continue
            ctx.bad("%s/%s" % (short(path), m), site_of(body, bb),
                    "length-changing call `%s` on ServerMutateTicks.ticks that is not part of a balanced idiom" % m)
    # advancing the ring: every skipped slot is recycled as a fresh one
    REORDER = {"rotate_left", "rotate_right", "swap", "make_contiguous", "as_mut_slices", "iter_mut", "get_mut", "front_mut", "back_mut"}
    cf = [b for b in F.find("ServerMutateTicks::confirm")]
    if cf:
        body = cf[0]
        tr = tracer(body)
        reorder = []
        for bb, t in body.calls():
            m = callee_decl(t).rsplit("::", 1)[-1]
            if m in ("rotate_left", "rotate_right", "swap", "make_contiguous") and t["args"] and "VecDeque" in callee_decl(t):
                if any(r.path and any(e[0] == "f" and e[2] == "ticks" and e[3] == adt for e in r.path) for r in tr.operand(t["args"][0])):
                    reorder.append((bb, m))
        # the recycling loop: pushes of fresh slots inside a loop whose trip count derives from the tick gap
        pushes = [(bb, t) for (bb, m, t) in by_fn.get(body.path, []) if m in ("push_front", "push_back")]
        gap_loops = []
        for bb, t in pushes:
            for h, bs in body.loops_containing(bb):
                nx = body.blocks[h].term
                if nx["t"] == "call" and callee_decl(nx).endswith("Iterator::next"):
                    from flow import dep_closure
                    deps = dep_closure(body, nx["args"][0])
                    if any(k == "call" and "RepliconTick as core::ops::arith::Sub" in callee_name(body.blocks[d].term) for (k, d) in deps):
                        gap_loops.append(h)
        ctx.check(bool(gap_loops) and not reorder, "%s/every-skipped-slot-recycled" % short(body.path), site_of(body),
                  "advancing the ring by a gap does not recycle one fresh slot per skipped tick (in-place reordering %s / no loop over the gap): slots of skipped "
                  "ticks would keep the counters of old ticks and report them as fully received" % reorder,
                  "one pop/push pair per tick of the gap")
    # construction sites
    built = 0
    for body in F.real_fns():
        for bb, i, s in body.statements():
            if s["s"] == "assign" and s["rvalue"]["rv"] == "agg" and s["rvalue"].get("adt") == adt:
                built += 1
                rv = s["rvalue"]
                idx = rv["fields"].index("ticks")
                tr = tracer(body)
                ok = False
                desc = []
                for o in tr.operand(rv["ops"][idx]):
                    if o.kind == "stmt":
                        srv = body.blocks[o.data[0]].stmts[o.data[1]]["rvalue"]
                        desc.append(srv["rv"])
                        if srv["rv"] == "repeat" and str(srv["n"]).split("_")[0] == "64":
                            ok = True
                        if srv["rv"] == "agg" and srv["kind"] == "array" and len(srv["ops"]) == 64:
                            ok = True
                    if o.kind == "call":
                        ct = body.blocks[o.data].term
                        full = ct["callee"].get("full", "")
                        desc.append(short(full)[:120])
                        if "From<[" in full and "; 64]" in full:
                            ok = True
                        if callee_decl(ct).endswith("::from") and any("; 64]" in a for a in ct["callee"].get("args", [])):
                            ok = True
                ctx.check(ok, "%s/construct" % short(body.path), site_of(body, bb),
                          "ServerMutateTicks is built with a ring that is not a 64-element array: %s" % desc,
                          "ring built from a 64-element array")
    if not built:
        ctx.bad("construct", "", "no construction site of ServerMutateTicks found", kind="anchor-missing")
    # field privacy: nobody outside the module can resize it
    fields = {f["name"]: f for f in F.adt_fields(adt)}
    ctx.check(fields["ticks"]["vis"].startswith("restricted"), "ticks-private", adt, "field `ticks` is not private")


# ------------------------------------------------------------- R3 ordering
def r3_wrapping_order(ctx):
    F = ctx.F
    pc = [b for p, b in F.fns.items() if p.startswith("<" + TICK + " as core::cmp::PartialOrd>::partial_cmp")]
    if not pc:
        ctx.bad("partial_cmp", "", "PartialOrd impl of RepliconTick not found", kind="anchor-missing")
        return
    b = pc[0]
    ctx.check(not b.j.get("derived"), "partial_cmp/not-derived", site_of(b), "PartialOrd for RepliconTick is derived (compares the raw counter, not the wrapping distance)")
    calls_cmp = [bb for bb, t in b.calls() if callee_name(t).startswith("<" + TICK + " as core::cmp::Ord>::cmp")]
    ctx.check(bool(calls_cmp), "partial_cmp/delegates-to-cmp", site_of(b), "partial_cmp does not delegate to RepliconTick's Ord::cmp")
    oc = [bb_ for p, bb_ in F.fns.items() if p.startswith("<" + TICK + " as core::cmp::Ord>::cmp")]
    if oc:
        ctx.check(not oc[0].j.get("derived"), "cmp/not-derived", site_of(oc[0]), "Ord for RepliconTick is derived")
        # PartialOrd's provided lt/le/gt/ge must not be overridden inconsistently: only partial_cmp in the impl
    for imp in F.impls:
        if imp.get("self") == TICK and imp.get("trait") == "core::cmp::PartialOrd":
            names = sorted(i.rsplit("::", 1)[-1] for i in imp["items"])
            ctx.check(names == ["partial_cmp"], "partial_ord/only-partial_cmp", imp.get("span", ""),
                      "PartialOrd impl overrides %s: comparisons could disagree with cmp" % names)
    # the order itself is a function of the *wrapping difference* of the two counters: a comparison of the counters themselves (as
    # unsigned or, cast, as signed numbers) is only circular around one point of the range and breaks half a range away from it
    if oc:
        cb = oc[0]
        ctr = tracer(cb)
        diffs = []
        for bb, t in cb.calls():
            m = callee_decl(t).rsplit("::", 1)[-1]
            if m in ("wrapping_sub", "overflowing_sub", "wrapping_add") and len(t.get("args", [])) == 2:
                roots = [set(x.data for x in deep_origins(cb, a_) if x.kind == "param") for a_ in t["args"]]
                if roots[0] and roots[1] and roots[0] != roots[1] and (roots[0] | roots[1]) == {1, 2}:
                    diffs.append(bb)
        ctx.check(bool(diffs), "cmp/wrapping-difference", site_of(cb), "RepliconTick::cmp does not compute the wrapping difference of the two ticks")
        raw = []
        for bl in cb.blocks:
            if bl.idx not in cb.reach:
                continue
            conds = []
            if bl.term["t"] == "switch":
                c = switch_cond(cb, bl.idx)
                if c["kind"] == "cmp":
                    conds.append((c["rel"], c["a"], c["b"], bl.idx))
            if bl.term["t"] == "call" and callee_decl(bl.term).rsplit("::", 1)[-1] in ("cmp", "partial_cmp", "lt", "le", "gt", "ge", "max", "min") and len(bl.term.get("args", [])) == 2 \
                    and not callee_name(bl.term).startswith("<" + TICK):
                conds.append((callee_decl(bl.term).rsplit("::", 1)[-1], bl.term["args"][0], bl.term["args"][1], bl.idx))
            for (rel, a_, b_, where) in conds:
                if rel in ("==", "!="):
                    continue
                ra = set(x.data for x in deep_origins(cb, a_) if x.kind == "param")
                rb = set(x.data for x in deep_origins(cb, b_) if x.kind == "param")
                via_diff = any(x.kind == "call" and x.data in diffs for x in deep_origins(cb, a_) | deep_origins(cb, b_))
                if ra and rb and ra != rb and not via_diff:
                    raw.append((rel, where))
        ctx.check(not raw, "cmp/no-direct-comparison-of-counters", site_of(cb, raw[0][1]) if raw else site_of(cb),
                  "RepliconTick::cmp orders the two counters by comparing them directly (%s), not their wrapping difference: the order is wrong for ticks on opposite sides "
                  "of the point where that comparison jumps (0 / 2^31), although they are less than half the range apart" % [r for r, _ in raw])
    # arithmetic on the raw counter cannot overflow-panic
    n = 0
    for p, fb in F.fns.items():
        if fb.j.get("impl_self") == TICK and fb.kind == "AssocFn" and not fb.j.get("derived"):
            n += 1
            bad = [bl.term["kind"] for bl in fb.blocks if bl.idx in fb.reach and bl.term["t"] == "assert" and bl.term["kind"].startswith("Overflow")]
            ctx.check(not bad, "%s/no-overflow-assert" % short(p), site_of(fb), "tick arithmetic can overflow-panic at the wrap point: %s" % bad)
    # window code never compares raw counters
    for body in window_fns(ctx):
        tr = tracer(body)
        for bl in body.blocks:
            if bl.idx not in body.reach or bl.term["t"] != "switch":
                continue
            c = switch_cond(body, bl.idx)
            if c["kind"] != "cmp" or c["rel"] in ("==", "!="):
                continue
            raw = []
            for side in (c["a"], c["b"]):
                for o in deep_origins(body, side):
                    if o.kind == "call" and callee_decl(body.blocks[o.data].term).endswith("RepliconTick::get"):
                        raw.append(o)
                    if o.path and o.path[-1][0] == "f" and o.path[-1][3] == TICK:
                        raw.append(o)
            ctx.check(not raw, "%s/no-raw-compare@%s" % (short(body.path), c["rel"]), site_of(body, bl.idx),
                      "ordering comparison on the raw tick counter instead of RepliconTick's wrapping comparison")


# --------------------------------------------------------- R4 notification
def r4_notification(ctx):
    F = ctx.F
    EVT = "bevy_replicon::client::server_mutate_ticks::MutateTickReceived"
    ctx.adt(EVT)
    builders = []
    for body in F.real_fns():
        if "::tests::" in body.path:
            continue
        for bb, i, s in body.statements():
            if s["s"] == "assign" and s["rvalue"]["rv"] == "agg" and s["rvalue"].get("adt") == EVT:
                builders.append((body, bb, s["rvalue"]))
    ctx.check(len(builders) == 1, "single-emitter", "", "MutateTickReceived is constructed at %d sites (expected exactly one)" % len(builders),
              "one construction site")
    for body, bb, rv in builders:
        tr = tracer(body)
        # guarded by confirm(..) == true
        guard = None
        for (sbb, cond, outs) in required_outcomes(F, body, bb):
            if cond["kind"] == "boolcall" and cond["name"].endswith("ServerMutateTicks::confirm") and outs == {True}:
                guard = cond
        ctx.check(guard is not None, "%s/guarded-by-confirm" % short(body.path), site_of(body, bb),
                  "the fully-received notification is not control-dependent on ServerMutateTicks::confirm returning true")
        if guard is None:
            continue
        cbb = guard["bb"]
        cargs = body.blocks[cbb].term["args"]
        same_tick = tr.operand(rv["ops"][0]) == tr.operand(cargs[1])
        ctx.check(same_tick, "%s/event-tick-is-confirmed-tick" % short(body.path), site_of(body, bb),
                  "the notification carries a different tick than the one confirmed")
        # tick and count come from the same buffered message
        t_o = tr.operand(cargs[1])
        c_o = tr.operand(cargs[2])
        roots_t = {(o.kind, o.data, o.path[:-1]) for o in t_o}
        roots_c = {(o.kind, o.data, o.path[:-1]) for o in c_o}
        def _nm(o):
            e = o.path[-1]
            return e[2] if e[0] == "f" and len(e) > 2 else str(e[0])
        names_t = {_nm(o) for o in t_o if o.path}
        names_c = {_nm(o) for o in c_o if o.path}
        ctx.check(roots_t == roots_c and names_t == {"message_tick"} and names_c == {"messages_count"},
                  "%s/confirm-args-from-one-message" % short(body.path), site_of(body, cbb),
                  "confirm() is not called with the message's own tick and count (tick<-%s count<-%s)" % (names_t, names_c))
        # confirm is reached on every path on which the message is consumed (after apply_array, not inside its Ok/Err arms)
        applies = [b2 for b2, t in body.calls() if callee_decl(t).endswith("client::apply_array")]
        ctx.check(bool(applies) and all(body.dominates(a, cbb) for a in applies), "%s/confirm-after-apply" % short(body.path),
                  site_of(body, cbb), "confirm() is not dominated by the application of the message")
        only_opt = [(sbb, c, o) for (sbb, c, o) in required_outcomes(F, body, cbb)
                    if not (c["kind"] == "variant" and o == {"Some"})]
        # allowed extra guard: the buffered-until-update-tick early return
        extra = [(sbb, c, o) for (sbb, c, o) in only_opt if not (c["kind"] == "cmp")]
        ctx.check(not extra, "%s/confirm-unconditional" % short(body.path), site_of(body, cbb),
                  "confirm() is skipped on some paths that apply the message: %s" % [(s_, c_["kind"], o_) for s_, c_, o_ in extra])
        confirms = [b2 for b2, t in body.calls() if callee_decl(t).endswith("ServerMutateTicks::confirm")]
        ctx.check(len(confirms) == 1 and not body.loops_containing(cbb), "%s/confirm-once" % short(body.path), site_of(body, cbb),
                  "confirm() called %d times / inside a loop for one message" % len(confirms))
    # all_received: both counters, equality and non-zero
    ar = ctx.fn("TickMessages::all_received")
    tr = tracer(ar)
    rels = []
    for bl in ar.blocks:
        for s in bl.stmts:
            if s["s"] == "assign" and s["rvalue"]["rv"] == "bin" and s["rvalue"]["op"] in ("Eq", "Ne"):
                names = set()
                k = None
                for side in (s["rvalue"]["a"], s["rvalue"]["b"]):
                    if side.get("k") == "const":
                        k = side.get("val")
                    for o in tr.operand(side):
                        if o.path:
                            names.add(o.path[-1][2])
                rels.append((s["rvalue"]["op"], tuple(sorted(names)), k))
    ctx.check(("Eq", ("messages_count", "received"), None) in rels and ("Ne", ("messages_count",), 0) in rels,
              "all_received/compares-both-counters", site_of(ar), "all_received does not test count != 0 && count == received: %s" % rels,
              str(rels))
    # confirm increments `received` by exactly one
    cf = ctx.fn("TickMessages::confirm")
    inc = []
    for bb, i, s in cf.statements():
        if s["s"] == "assign" and s["rvalue"]["rv"] == "bin" and s["rvalue"]["op"] in ("Add", "AddWithOverflow"):
            inc.append((s["rvalue"]["a"], s["rvalue"]["b"]))
    # ... also when written as a method call (checked_add / saturating_add / wrapping_add / Add::add)
    for bb, t in cf.calls():
        m = callee_decl(t).rsplit("::", 1)[-1]
        if m in ("checked_add", "saturating_add", "wrapping_add", "add", "strict_add") and len(t.get("args", [])) == 2:
            inc.append((t["args"][0], t["args"][1]))
    ok = any(const_value(cf, b) == 1 and any(o.path and o.path[-1][2] == "received" for o in tracer(cf).operand(a)) for a, b in inc)
    ctx.check(ok and len(inc) == 1, "TickMessages::confirm/increments-received-by-one", site_of(cf), "received counter is not incremented by exactly one per confirmation")
    # the counters hold the count as it came from the wire: no narrowing (a clamped count makes a tick look complete early)
    import bitwidth
    TM = next((a for a in F.adts if a.endswith("server_mutate_ticks::TickMessages")), None)
    if TM is None:
        ctx.bad("TickMessages/type", "", "TickMessages not found", kind="anchor-missing")
    else:
        wire = cf.locals[2]["ty"] if len(cf.locals) > 2 else "usize"
        ww = bitwidth.ty_width(wire) or 64
        for f in F.adt_fields(TM) or []:
            fw = bitwidth.ty_width(f["ty"])
            ctx.check(fw is not None and fw >= ww, "TickMessages.%s/as-wide-as-the-wire-count" % f["name"], TM,
                      "the per-tick counter `%s` is %s, narrower than the message count it is compared with (%s): for a tick split into more messages than it can hold the tick "
                      "is reported as fully received too early and the notification fires repeatedly" % (f["name"], f["ty"], wire), "%s vs %s" % (f["ty"], wire))
        lossy = bitwidth.lossy_ops(cf)
        ctx.check(not lossy, "TickMessages::confirm/no-lossy-conversion", site_of(cf), "the message count is narrowed: %s" % [x[3] for x in lossy])
        conv = [callee_decl(t) for _, t in cf.calls() if callee_decl(t).rsplit("::", 1)[-1] in ("try_from", "try_into", "min", "clamp")]
        ctx.check(not conv, "TickMessages::confirm/count-stored-as-received", site_of(cf), "the message count is converted/clamped before being stored (%s)" % conv)
    # flag agreement: server writes the count iff track_mutate_messages; client reads iff ServerMutateTicks exists;
    # ClientPlugin::finish creates ServerMutateTicks iff the same flag
    fin = ctx.fn("<bevy_replicon::client::ClientPlugin as bevy_app::plugin::Plugin>::finish")
    inits = [bb for bb, t in fin.calls() if callee_decl(t).endswith("init_resource") and any("ServerMutateTicks" in a for a in t["callee"]["args"])]
    ok = False
    for bb in inits:
        for (sbb, cond, outs) in required_outcomes(F, fin, bb):
            srcs = deep_origins(fin, fin.blocks[sbb].term["discr"])
            if outs == {True} and any(o.kind == "call" and any("TrackMutateMessages" in a for a in fin.blocks[o.data].term["callee"].get("args", [])) for o in srcs):
                ok = True
    ctx.check(bool(inits) and ok, "ClientPlugin::finish/ring-iff-tracking", site_of(fin),
              "ServerMutateTicks is not created exactly when TrackMutateMessages is enabled")
    bm = ctx.fn("client::buffer_mutate_message")
    tr = tracer(bm)
    reads = []
    for bb in bm.rpo:
        t = bm.blocks[bb].term
        if t["t"] == "call" and callee_decl(t).endswith("postcard_utils::from_buf"):
            ty = [a for a in t["callee"]["args"] if not a.startswith("'")][0]
            g = [(c, o) for (s_, c, o) in required_outcomes(F, bm, bb) if c["kind"] == "boolcall"]
            reads.append((ty, [(short(c["name"]), sorted(map(str, o))) for c, o in g]))
    cond_reads = [r for r in reads if r[1]]
    ok = len(cond_reads) == 1 and cond_reads[0][0] == "usize" and "is_some" in cond_reads[0][1][0][0] and cond_reads[0][1][0][1] == ["True"]
    ctx.check(ok, "buffer_mutate_message/count-read-iff-ring", site_of(bm),
              "the per-tick message count is not read exactly when the ring exists: %s" % reads, str(reads))
    if not F.find("Mutations::send"):
        ctx.note("server side not compiled in this configuration: count-written-iff-flag not applicable")
        return
    ms = ctx.fn("Mutations::send")
    tr = tracer(ms)
    # the count write (`write ... messages_count`) must be guarded by the track flag parameter
    flag_params = [i for i in range(1, ms.arg_count + 1) if ms.locals[i]["ty"] == "bool"]
    guarded = 0
    for bb, t in ms.calls():
        for (sbb, cond, outs) in required_outcomes(F, ms, bb):
            d = ms.blocks[sbb].term["discr"]
            if any(o.kind == "param" and o.data in flag_params for o in tr.operand(d)) and outs == {True}:
                if callee_decl(t).endswith("postcard_utils::to_extend_mut") or "postcard" in callee_decl(t) or "len" in callee_decl(t):
                    guarded += 1
    ctx.check(len(flag_params) == 1 and guarded >= 1, "Mutations::send/count-written-iff-flag", site_of(ms),
              "no serialisation of the message count guarded by the track_mutate_messages flag was found")


def r5_positive_answers_justified(ctx):
    """A query of the per-tick tracker says `received` only for a reason that is in the data: the slot's counters (`all_received`)
    or the documented convention that ticks older than the window count as received (a comparison involving the window length).
    A constant `true` under any other condition (e.g. `the range reaches the newest tick`) disagrees with `contains`/`mask` and
    with the notification, because the newest tick may be only partially received."""
    F = ctx.F
    n = 0
    for name in ("server_mutate_ticks::ServerMutateTicks::contains_any", "server_mutate_ticks::ServerMutateTicks::contains"):
        b = ctx.fn(name)
        tr = tracer(b)
        for bb, i, st in b.statements():
            if not (st["s"] == "assign" and st["place"] == {"l": 0, "p": []} and st["rvalue"]["rv"] == "use" and st["rvalue"]["op"].get("k") == "const"):
                continue
            val = st["rvalue"]["op"].get("val")
            if val not in (1, True):
                continue
            n += 1
            justified = False
            why = []
            for (sb, c, o) in required_outcomes(F, b, bb):
                if c["kind"] == "variant" and o == {"None"} and "place" in c:
                    # `self.ticks.get(ago)` is None: the index lies beyond the window
                    if any(x.kind == "call" and callee_decl(b.blocks[x.data].term).rsplit("::", 1)[-1] in ("get", "get_mut") for x in tr.place(c["place"])):
                        justified = True
                        why.append(("window.get(..) is None", True))
                    continue
                if c["kind"] != "cmp":
                    continue
                if len(o) != 1 or next(iter(o)) not in (True, False):
                    continue
                rel, x, y = cmp_facts(c, next(iter(o)))

                def has_len(op):
                    return any(k == "call" and callee_decl(b.blocks[d].term).rsplit("::", 1)[-1] == "len" for (k, d) in dep_closure(b, op))
                # `tick <= last_tick - window_len`: the queried tick is on the smaller side, the window length on the greater side
                older = rel in ("<", "<=") and has_len(y) and not has_len(x)
                why.append(("%s %s" % (rel, "window" if has_len(y) else "?"), older))
                if older:
                    justified = True
            ctx.check(justified, ctx.nth("%s/constant-true-only-below-the-window" % short(name)), "%s (%s)" % (b.path, st.get("span", b.span)),
                      "the query answers `true` without consulting a slot's counters and not under the older-than-the-window rule (guards: %s): it reports ticks as fully received "
                      "that are not" % why)
        # the non-constant answer comes from all_received()
        ok = any(callee_decl(t).endswith("TickMessages::all_received") for bb2 in [b] + F.closures_of(b.path) for _, t in bb2.calls())
        ctx.check(ok, "%s/answer-from-counters" % short(name), site_of(b), "the query never consults TickMessages::all_received")
    ctx.check(n >= 1, "constant-answers", "", "no constant `true` answer found (the older-than-the-window rule is expected in contains_any)")


RULES = [
    ("C12.R1", "every shift amount in the confirmation windows is < the bit width", r1_shift_bounds, 6, None),
    ("C12.R2", "the mutate-tick ring keeps exactly 64 slots and recycles one slot per skipped tick", r2_ring_length, 5, None),
    ("C12.R3", "ticks are ordered only through the wrapping comparison", r3_wrapping_order, 8, None),
    ("C12.R4", "the fully-received notification is wired to the ring's own verdict", r4_notification, 10, ["default", "all-features", "client-only"]),
    ("C12.R5", "the per-tick tracker answers `received` only from a slot's counters or under the older-than-the-window rule", r5_positive_answers_justified, 3, ["default", "all-features", "client-only"]),
]
THOROUGH_CONFIGS = ["default", "all-features", "client-only"]
