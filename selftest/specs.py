"""Seeded mutants for the checker's two-way self-test. Each edit is (file, old, new) against /repo's
current tree; `expect` lists substrings of the violation key the rule must report."""
M = []


def mutp(prop, name, desc, expect, patch):
    """A mutant given as a ready-made patch file (path relative to /verif), e.g. an independently seeded change."""
    M.append({"prop": prop, "name": name, "desc": desc, "expect": list(expect) if isinstance(expect, (list, tuple)) else [expect],
              "edits": [], "patch": patch})


def mut(prop, name, desc, expect, *edits):
    M.append({"prop": prop, "name": name, "desc": desc, "expect": list(expect) if isinstance(expect, (list, tuple)) else [expect],
              "edits": list(edits)})


# ------------------------------------------------------------------ C06
mut("C06", "reintroduce_d1_panic_on_unauthorized_ack", "acks from a client without ClientTicks panic again", "C06.R1/server::receive_acks",
    ("src/server.rs", """                    let Ok(mut ticks) = clients.get_mut(client) else {
                        // Connected, but not authorized clients don't have ticks.
                        debug!("ignoring acknowledgment from non-authorized client `{client}`");
                        break;
                    };
""", """                    let mut ticks = clients.get_mut(client).unwrap_or_else(|_| {
                        panic!("messages from client `{client}` should have been removed on disconnect")
                    });
"""))
mut("C06", "reintroduce_d2_unbounded_capacity", "trigger target count from the wire sizes an allocation", "C06.R2/shared::event::client_trigger::trigger_deserialize",
    ("src/shared/event/client_trigger.rs", "Vec::with_capacity(len.min(message.len()))", "Vec::with_capacity(len)"))
mut("C06", "reintroduce_d3_generation_overflow", "generation + 1 overflows", "deserialize_entity/Overflow:Add",
    ("src/shared/entity_serde.rs", """        postcard_utils::from_buf::<u32, _>(message)?
            .checked_add(1)
            .ok_or("entity generation is out of range")?
""", """        postcard_utils::from_buf::<u32, _>(message)? + 1
"""))
mut("C06", "reintroduce_d3_from_bits", "Entity::from_bits on decoded bits", "deserialize_entity/bevy_ecs::entity::Entity::from_bits",
    ("src/shared/entity_serde.rs", "Ok(Entity::try_from_bits(bits)?)", "Ok(Entity::from_bits(bits))"))
mut("C06", "early_return_on_bad_event", "a malformed event makes receive_typed return, dropping the other clients' messages", "receive_typed/loop-exits-only-on-exhaustion",
    ("src/shared/event/client_event.rs", """                Err(e) => debug!(
                    "ignoring event `{}` from client `{client}` that failed to deserialize: {e}",
                    any::type_name::<E>()
                ),
""", """                Err(e) => {
                    debug!(
                        "ignoring event `{}` from client `{client}` that failed to deserialize: {e}",
                        any::type_name::<E>()
                    );
                    return;
                }
"""))
mut("C06", "expect_on_decode", "decode error turned into expect()", "receive_typed",
    ("src/shared/event/client_event.rs", """            match unsafe { self.deserialize::<E, I>(ctx, &mut message) } {
                Ok(event) => {""", """            match unsafe { self.deserialize::<E, I>(ctx, &mut message) }.map(Some).or_else(|e| if message.is_empty() { Err(e) } else { Ok(None) }).expect("client events should deserialize").ok_or("skipped") {
                Ok(event) => {"""))
mut("C06", "index_by_decoded_value", "ack handler indexes a map with a client-chosen key", "ack_mutate_message",
    ("src/shared/replication/client_ticks.rs", """        let Some(mutate_info) = self.mutations.remove(&mutate_index) else {
            debug!("received unknown `{mutate_index:?}` from client `{client}`");
            return;
        };
""", """        let _ = &self.mutations[&mutate_index];
        let Some(mutate_info) = self.mutations.remove(&mutate_index) else {
            debug!("received unknown `{mutate_index:?}` from client `{client}`");
            return;
        };
"""))
mut("C06", "advance_by_decoded_len", "trigger decoder skips a client-chosen number of bytes", "trigger_deserialize",
    ("src/shared/event/client_trigger.rs", """    let event = (deserialize)(ctx, message)?;

    Ok(ClientTriggerEvent { event, targets })""", """    if len > 1000 {
        bytes::Buf::advance(message, len);
    }
    let event = (deserialize)(ctx, message)?;

    Ok(ClientTriggerEvent { event, targets })"""))

# ------------------------------------------------------------------ C15
mut("C15", "take_n_without_guard", "cursor advanced without the remaining-length check", ["try_take_n"],
    ("src/shared/postcard_utils.rs", """        if self.buf.remaining() < ct {
            return Err(postcard::Error::DeserializeUnexpectedEnd);
        }
""", ""))
mut("C15", "reader_reads_generation_always", "reader consumes the generation unconditionally", ["C15.R2/field-sequence"],
    ("src/shared/entity_serde.rs", """    let generation = if has_generation {
        postcard_utils::from_buf::<u32, _>(message)?
            .checked_add(1)
            .ok_or("entity generation is out of range")?
    } else {
        1u32
    };
""", """    let _ = has_generation;
    let generation = postcard_utils::from_buf::<u32, _>(message)?
        .checked_add(1)
        .ok_or("entity generation is out of range")?;
"""))
mut("C15", "writer_flag_not_transmitted", "writer no longer ORs the presence flag into the index", ["C15.R2/writer-flag"],
    ("src/shared/entity_serde.rs", "    flagged_index |= flag as u64;\n", ""))
mut("C15", "reader_flag_from_elsewhere", "reader decides presence from the remaining length instead of bit 0", ["C15.R2/reader-flag"],
    ("src/shared/entity_serde.rs", "let has_generation = (flagged_index & 1) > 0;", "let has_generation = message.len() > 4;"))
mut("C15", "advance_differs_from_slice", "cursor advanced by one byte less than handed out", ["advance-equals-slice-len"],
    ("src/shared/postcard_utils.rs", "self.buf.advance(ct);", "self.buf.advance(ct.saturating_sub(1));"))
mut("C15", "writer_u32_index", "writer emits the flagged index as u32", ["C15.R2/field-sequence"],
    ("src/shared/entity_serde.rs", "postcard_utils::to_extend_mut(&flagged_index, message)?;", "postcard_utils::to_extend_mut(&(flagged_index as u32), message)?;"))

# ------------------------------------------------------------------ C12
mut("C12", "reintroduce_d4_wrapping_shl", "gap >= 64 keeps stale bits", ["set_last_tick/wrapping_shl"],
    ("src/client/confirm_history.rs", "self.mask.checked_shl(diff).unwrap_or(0)", "self.mask.wrapping_shl(diff)"))
mut("C12", "reintroduce_d4_full_window_range", "1 << 64 in contains_any", ["contains_any/Shl"],
    ("src/client/confirm_history.rs", """        let range = if len >= u64::BITS {
            u64::MAX
        } else {
            (1 << len) - 1
        };
""", "        let range = (1 << len) - 1;\n"))
mut("C12", "contains_without_window_guard", "contains() shifts by an unbounded distance", ["ConfirmHistory::contains/Shr"],
    ("src/client/confirm_history.rs", "ago >= u64::BITS || ((self.mask >> ago) & 1) == 1", "((self.mask >> ago) & 1) == 1"))
mut("C12", "contains_any_no_old_window_return", "range query no longer treats ticks older than the window as confirmed", ["contains_any/Shl"],
    ("src/client/confirm_history.rs", """        if start_tick <= self.last_tick - u64::BITS {
            return true;
        }

        let end_tick = if end_tick < self.last_tick {
            end_tick
        } else {
            self.last_tick
        };

        let len""", """        let end_tick = if end_tick < self.last_tick {
            end_tick
        } else {
            self.last_tick
        };

        let len"""))
mut("C12", "confirm_unbounded_set", "confirm() sets a bit beyond the window", ["ConfirmHistory::set/Shl"],
    ("src/client/confirm_history.rs", """            if ago < u64::BITS {
                self.set(ago);
            }""", """            self.set(ago);"""))
mut("C12", "ring_resized_to_32", "ring re-created with 32 slots after a long gap", ["ServerMutateTicks::confirm/clear"],
    ("src/client/server_mutate_ticks.rs", "self.ticks.resize(u64::BITS as usize, Default::default());", "self.ticks.resize(u32::BITS as usize, Default::default());"))
mut("C12", "ring_pop_without_push", "ring rotation loses its push", ["ServerMutateTicks::confirm/pop_back"],
    ("src/client/server_mutate_ticks.rs", """                    self.ticks.pop_back();
                    self.ticks.push_front(Default::default());""", """                    self.ticks.pop_back();"""))
mut("C12", "derived_partial_ord", "PartialOrd derived on the raw counter", ["C12.R3/partial"],
    ("src/shared/replicon_tick.rs", """#[derive(Clone, Copy, Debug, Default, Deserialize, Eq, Hash, PartialEq, Serialize, MaxSize)]
pub struct RepliconTick(u32);""", """#[derive(Clone, Copy, Debug, Default, Deserialize, Eq, Hash, PartialEq, PartialOrd, Serialize, MaxSize)]
pub struct RepliconTick(u32);"""),
    ("src/shared/replicon_tick.rs", """impl PartialOrd for RepliconTick {
    fn partial_cmp(&self, other: &Self) -> Option<Ordering> {
        Some(self.cmp(other))
    }
}
""", ""))
mut("C12", "tick_add_can_overflow", "tick + n uses checked arithmetic that panics at the wrap point", ["no-overflow-assert"],
    ("src/shared/replicon_tick.rs", """    fn add(self, rhs: u32) -> Self::Output {
        Self(self.0.wrapping_add(rhs))""", """    fn add(self, rhs: u32) -> Self::Output {
        Self(self.0 + rhs)"""))
mut("C12", "raw_compare_in_window", "window code compares raw counters", ["no-raw-compare"],
    ("src/client/confirm_history.rs", """    pub fn confirm(&mut self, tick: RepliconTick) {
        if tick > self.last_tick {""", """    pub fn confirm(&mut self, tick: RepliconTick) {
        if tick.get() > self.last_tick.get() {"""))
mut("C12", "notify_unconditionally", "MutateTickReceived fires for every applied message", ["guarded-by-confirm"],
    ("src/client.rs", """            if mutate_ticks.confirm(mutate.message_tick, mutate.messages_count) {
                world.send_event(MutateTickReceived {
                    tick: mutate.message_tick,
                });
            }""", """            mutate_ticks.confirm(mutate.message_tick, mutate.messages_count);
            world.send_event(MutateTickReceived {
                tick: mutate.message_tick,
            });"""))
mut("C12", "confirm_with_update_tick", "ring confirmed with the message's update tick instead of its own tick", ["confirm-args-from-one-message", "event-tick-is-confirmed-tick"],
    ("src/client.rs", "if mutate_ticks.confirm(mutate.message_tick, mutate.messages_count) {", "if mutate_ticks.confirm(mutate.update_tick, mutate.messages_count) {"))
mut("C12", "confirm_only_on_success", "a message that failed to apply is never counted", ["confirm-unconditional", "confirm-after-apply"],
    ("src/client.rs", """        match len {
            Ok(len) => {
                if let Some(stats) = &mut params.stats {
                    stats.entities_changed += len;
                }
            }
            Err(e) => error!(""", """        match len {
            Ok(len) => {
                if let Some(stats) = &mut params.stats {
                    stats.entities_changed += len;
                }
            }
            Err(e) => return {
                error!("unable to apply mutate message for tick `{:?}`: {e}", mutate.message_tick);
                false
            },
            #[allow(unreachable_patterns)]
            Err(e) => error!("""))
mut("C12", "all_received_ge", "all_received no longer requires a non-zero count", ["all_received/compares-both-counters"],
    ("src/client/server_mutate_ticks.rs", "self.messages_count != 0 && self.messages_count == self.received", "self.messages_count == self.received"))
mut("C12", "ring_always_created", "client creates the ring regardless of the tracking flag", ["ring-iff-tracking"],
    ("src/client.rs", """        if **app.world().resource::<TrackMutateMessages>() {
            app.init_resource::<ServerMutateTicks>();
        }""", """        app.init_resource::<ServerMutateTicks>();"""))

# ------------------------------------------------------------------ C14
mut("C14", "client_event_not_hashed", "add_client_event_with no longer feeds the hasher", ["add_client_event_with"],
    ("src/shared/event/client_event.rs", """        self.world_mut()
            .resource_mut::<ProtocolHasher>()
            .add_client_event::<E>();
""", ""))
mut("C14", "bundle_hashed_conditionally", "bundle rule hashed only in one branch", ["replicate_bundle"],
    ("src/shared/replication/replication_rules.rs", """        self.world_mut()
            .resource_mut::<ProtocolHasher>()
            .replicate_bundle::<B>();
""", """        if self.world().contains_resource::<ReplicationRegistry>() && core::mem::size_of::<B>() != 0 {
            self.world_mut()
                .resource_mut::<ProtocolHasher>()
                .replicate_bundle::<B>();
        }
"""))
mut("C14", "trigger_hashed_as_event", "server trigger registration uses the server-event hasher method", ["distinct-method"],
    ("src/shared/event/server_trigger.rs", """            .resource_mut::<ProtocolHasher>()
            .add_server_trigger::<E>();""", """            .resource_mut::<ProtocolHasher>()
            .add_server_event::<E>();"""))
mut("C14", "part_variant_reused", "two hasher methods hash the same ProtocolPart", ["distinct-part"],
    ("src/shared/protocol.rs", "self.hash::<E>(ProtocolPart::ClientTrigger);", "self.hash::<E>(ProtocolPart::ClientEvent);"))
mut("C14", "priority_not_hashed", "replicate() hashes a constant priority", ["replicate/fields-from-params"],
    ("src/shared/protocol.rs", "priority: priority as u64,", "priority: 1,"))
mut("C14", "type_name_not_hashed", "hash() feeds only the part", ["hash/feeds-type-name"],
    ("src/shared/protocol.rs", "        any::type_name::<T>().hash(&mut self.0);\n", ""))
mut("C14", "hash_type_id", "hash() feeds a TypeId (not stable across builds) instead of the type name", ["hashes-core::any::TypeId", "feeds-type-name"],
    ("src/shared/protocol.rs", "        any::type_name::<T>().hash(&mut self.0);\n", "        any::TypeId::of::<ProtocolPart>().hash(&mut self.0);\n"))
mut("C14", "authorize_on_mismatch", "comparison inverted", ["authorize-only-on-equal"],
    ("src/server.rs", "if **trigger == *protocol {", "if **trigger != *protocol {"))
mut("C14", "no_disconnect_on_mismatch", "mismatching client is notified but not disconnected", ["request-disconnect"],
    ("src/server.rs", """        events.write(DisconnectRequest {
            client: trigger.client,
        });
""", ""))
mut("C14", "mismatch_broadcast", "mismatch notification broadcast to everybody", ["mismatch-direct", "mismatch-goes-to-sender"],
    ("src/server.rs", "mode: SendMode::Direct(trigger.client),\n            event: ProtocolMismatch,", "mode: SendMode::Broadcast,\n            event: ProtocolMismatch,"))
mut("C14", "authorize_under_custom_too", "ConnectedClient requires AuthorizedClient under every auth method", ["auto-required-only-under-None"],
    ("src/server.rs", """            AuthMethod::None => {
                app.register_required_components::<ConnectedClient, AuthorizedClient>();
            }
            AuthMethod::Custom => (),""", """            AuthMethod::None | AuthMethod::Custom => {
                app.register_required_components::<ConnectedClient, AuthorizedClient>();
            }"""))
mut("C14", "independent_flag_without_hash", "make_event_independent sets the flag without hashing", ["make_event_independent"],
    ("src/shared/event/server_event.rs", """        self.world_mut()
            .resource_mut::<ProtocolHasher>()
            .make_event_independent::<E>();
""", ""))
MUTANTS = M

# ------------------------------------------------------------------ C18
M = MUTANTS
mut("C18", "reintroduce_d6_no_dedup_in_scene", "scene export no longer skips components already exported", ["C18.R1/scene::replicate_into"],
    ("src/scene.rs", """                if exported_ids.contains(&component.id) {
                    continue;
                }
""", ""))
mut("C18", "no_dedup_in_new_archetype", "server archetype cache takes the shared component from both rules", ["new_archetype"],
    ("src/server/server_world.rs", """                if replicated_archetype
                    .components
                    .iter()
                    .any(|(existing, _)| existing.id == component.id)
                {
                    continue;
                }
""", ""))
mut("C18", "no_dedup_in_removal_buffer", "removal buffer records the shared component once per rule", ["RemovalBuffer::update"],
    ("src/server/removal_buffer.rs", """                if removed_ids.iter().all(|&(id, _)| id != component.id)
                    && removed_components.contains(&component.id)""", """                if removed_components.contains(&component.id)"""))
mut("C18", "dedup_against_wrong_collection", "scene export checks a collection it never fills", ["C18.R1/scene::replicate_into"],
    ("src/scene.rs", "                exported_ids.push(component.id);\n", "                let _ = &mut exported_ids;\n"))
mut("C18", "entities_without_components_lost", "entries are only created when a component is exported", ["entry-per-entity"],
    ("src/scene.rs", """        for entity in archetype.entities() {
            entities.entry(entity.id()).or_default();
        }
""", ""),
    ("src/scene.rs", """                    let components = entities
                        .get_mut(&entity.id())
                        .expect("all entities should be populated ahead of time");
""", """                    let components = entities.entry(entity.id()).or_default();
"""))
mut("C18", "existing_scene_entities_duplicated", "existing scene entities are kept and replicated ones appended", ["existing-entities-taken-over"],
    ("src/scene.rs", """    let mut entities: EntityHashMap<_> = scene
        .entities
        .drain(..)
        .map(|dyn_entity| (dyn_entity.entity, dyn_entity.components))
        .collect();
""", """    let mut entities: EntityHashMap<Vec<Box<dyn PartialReflect>>> = Default::default();
"""))
mut("C18", "marker_exported", "the Replicated marker is pushed for every entity", ["push-inside-rule-loop"],
    ("src/scene.rs", """        for entity in archetype.entities() {
            entities.entry(entity.id()).or_default();
        }
""", """        for entity in archetype.entities() {
            entities.entry(entity.id()).or_default().push(Box::new(Replicated).into_partial_reflect());
        }
"""))
mut("C18", "component_of_first_entity", "every entity gets the value of the archetype's first entity", ["reflect-of-archetype-entity", "push-into-own-entity"],
    ("src/scene.rs", ".reflect(world.entity(entity.id()))", ".reflect(world.entity(archetype.entities()[0].id()))"))

# ------------------------------------------------------------------ C17
LC = "bevy_replicon_example_backend/src/link_conditioner.rs"
TCP = "bevy_replicon_example_backend/src/tcp.rs"
mut("C17", "reintroduce_d7_no_tiebreak", "cmp ignores the sequence number again", ["cmp-reads-sequence-field"],
    (LC, """        other
            .timestamp
            .cmp(&self.timestamp)
            .then_with(|| other.sequence.cmp(&self.sequence))
""", "        other.timestamp.cmp(&self.timestamp)\n"))
mut("C17", "sequence_never_incremented", "the counter is stored but never advanced", ["cmp-reads-sequence-field"],
    (LC, "        self.next_sequence += 1;\n", ""))
mut("C17", "tiebreak_not_reversed", "sequence compared in natural order in a max-heap (newest first)", ["cmp-reversed@sequence"],
    (LC, ".then_with(|| other.sequence.cmp(&self.sequence))", ".then_with(|| self.sequence.cmp(&other.sequence))"))
mut("C17", "timestamp_not_reversed", "timestamps compared in natural order", ["cmp-reversed@timestamp"],
    (LC, """        other
            .timestamp
            .cmp(&self.timestamp)""", """        self
            .timestamp
            .cmp(&other.timestamp)"""))
mut("C17", "length_big_endian_writer", "writer switches to big endian", ["length-width-and-endianness"],
    (TCP, "let message_size = &message_size.to_le_bytes();", "let message_size = &message_size.to_be_bytes();"))
mut("C17", "reader_swaps_length_bytes", "reader assembles the length from bytes 2,1", ["length-follows-channel"],
    (TCP, "u16::from_le_bytes([header[1], header[2]])", "u16::from_le_bytes([header[2], header[1]])"))
mut("C17", "writer_length_before_channel", "writer emits length before channel", ["writer/field-order"],
    (TCP, """        IoSlice::new(channel_id),
        IoSlice::new(message_size),""", """        IoSlice::new(message_size),
        IoSlice::new(channel_id),"""))
mut("C17", "reader_skips_two_bytes", "reader strips only two header bytes from the payload", ["skips-exactly-the-header"],
    (TCP, "message.advance(header.len());", "message.advance(header.len() - 1);"))
mut("C17", "reader_parses_partial_header", "reader proceeds with two peeked bytes", ["waits-for-full-header"],
    (TCP, """        1..3 => return Err(io::ErrorKind::WouldBlock.into()), // Wait for full header.
        3.. => (),""", """        1..2 => return Err(io::ErrorKind::WouldBlock.into()), // Wait for full header.
        2.. => (),"""))
mut("C17", "client_swaps_channel_and_drops", "client hands every popped message to channel 0", ["handoff-gets-popped-channel-and-payload"],
    ("bevy_replicon_example_backend/src/client.rs", "        replicon_client.insert_received(channel_id, message);", "        let _ = channel_id;\n        replicon_client.insert_received(0u8, message);"))
mut("C17", "server_pops_once_per_frame", "server hands over at most one message per client and frame", ["pop-until-empty"],
    ("bevy_replicon_example_backend/src/server.rs", "        while let Some((channel_id, message)) = connection.conditioner.pop(now) {", "        if let Some((channel_id, message)) = connection.conditioner.pop(now) {"))
mut("C17", "insert_twice", "every read message is inserted twice into the conditioner", ["one-insert-per-read", "single-push"],
    (LC, """        self.heap.push(TimedMessage {
            timestamp,
            sequence: self.next_sequence,
            channel_id,
            message,
        });
""", """        self.heap.push(TimedMessage {
            timestamp,
            sequence: self.next_sequence,
            channel_id,
            message: message.clone(),
        });
        if channel_id == 200 {
            self.heap.push(TimedMessage { timestamp, sequence: self.next_sequence, channel_id, message });
        }
"""))

# ------------------------------------------------------------------ C11
MUTS = "src/server/replication_messages/mutations.rs"
mut("C11", "reintroduce_d5_outer_is_empty", "is_empty looks at the outer length of the related groups", ["is_empty-on-related"],
    (MUTS, "self.standalone.is_empty() && self.related.iter().all(Vec::is_empty)", "self.standalone.is_empty() && self.related.is_empty()"))
mut("C11", "is_empty_ignores_related", "is_empty only looks at standalone entities (related mutations never sent alone)", ["covers-all-content"],
    (MUTS, "self.standalone.is_empty() && self.related.iter().all(Vec::is_empty)", "self.standalone.is_empty()"))
mut("C11", "mutations_always_sent", "mutate message sent regardless of content", ["Mutations-sent-only-when-non-empty"],
    ("src/server.rs", "if !mutations.is_empty() || track_mutate_messages {", "if !mutations.is_empty() || track_mutate_messages || server_tick.get() % 2 == 0 {"))
mut("C11", "updates_is_empty_ignores_mappings", "a mappings-only tick is not sent", ["is_empty-agrees-with-flags", "covers-serialised"],
    ("src/server/replication_messages/updates.rs", """            && self.removals.is_empty()
            && self.mappings.is_empty()""", """            && self.removals.is_empty()"""))
mut("C11", "flags_ignore_removals", "removal-only ticks are sent without their section", ["is_empty-agrees-with-flags"],
    ("src/server/replication_messages/updates.rs", """        if !self.removals.is_empty() {
            flags |= UpdateMessageFlags::REMOVALS;
        }
""", ""))
mut("C11", "ack_stores_current_tick", "acknowledgement moves the baseline to the current tick", ["stores-the-recorded-tick", "forward-only"],
    ("src/shared/replication/client_ticks.rs", """            if !last_tick.is_newer_than(mutate_info.tick, tick) {
                *last_tick = mutate_info.tick;
            }""", """            if !last_tick.is_newer_than(mutate_info.tick, tick) {
                *last_tick = tick;
            }"""))
mut("C11", "ack_not_forward_only", "acknowledgement overwrites a newer baseline", ["forward-only"],
    ("src/shared/replication/client_ticks.rs", """            if !last_tick.is_newer_than(mutate_info.tick, tick) {
                *last_tick = mutate_info.tick;
            }""", """            *last_tick = mutate_info.tick;"""))
mut("C11", "ack_direction_inverted", "baseline only moves when the stored tick is newer", ["forward-only"],
    ("src/shared/replication/client_ticks.rs", "if !last_tick.is_newer_than(mutate_info.tick, tick) {", "if last_tick.is_newer_than(mutate_info.tick, tick) {"))
mut("C11", "unknown_ack_bumps_everything", "an unknown index acknowledges all entities", ["unclassified-writer", "only-for-known-message", "ack"],
    ("src/shared/replication/client_ticks.rs", """            debug!("received unknown `{mutate_index:?}` from client `{client}`");
            return;""", """            debug!("received unknown `{mutate_index:?}` from client `{client}`");
            for last_tick in self.mutation_ticks.values_mut() {
                *last_tick = tick;
            }
            return;"""))
mut("C11", "cleanup_bumps_baseline", "timing out an unacknowledged message moves baselines", ["cleanup_older_mutations", "unclassified-writer"],
    ("src/shared/replication/client_ticks.rs", """                entity_buffer.push(mem::take(&mut mutate_info.entities));
                false""", """                for entity in &mutate_info.entities {
                    self.mutation_ticks.insert(*entity, mutate_info.tick);
                }
                entity_buffer.push(mem::take(&mut mutate_info.entities));
                false"""))
mut("C11", "baseline_set_to_last_run", "structural change bumps the baseline to last_run", ["passes-this_run"],
    ("src/server.rs", "ticks.set_mutation_tick(entity.id(), change_tick.this_run());", "ticks.set_mutation_tick(entity.id(), change_tick.last_run());"))
mut("C11", "reintroduce_d13_ack_on_receipt", "the client acknowledges a mutate message as soon as it is ready-tested... before: acknowledges every buffered message, also those still waiting for their update message", ["C11.R4/client/ack-only-when-consumed"],
    ("src/client.rs", """        if mutate.update_tick > *update_tick {
            return true;
        }

        if let Err(e) = postcard_utils::to_extend_mut(&mutate.mutate_index, acks) {
            error!(
                "unable to acknowledge mutate message for tick `{:?}`: {e}",
                mutate.message_tick
            );
        }
""", """        if !mutate.acked {
            mutate.acked = true;
            if let Err(e) = postcard_utils::to_extend_mut(&mutate.mutate_index, acks) {
                error!(
                    "unable to acknowledge mutate message for tick `{:?}`: {e}",
                    mutate.message_tick
                );
            }
        }

        if mutate.update_tick > *update_tick {
            return true;
        }
"""),
    ("src/client.rs", """        mutate_index,
        message,
    });""", """        mutate_index,
        acked: false,
        message,
    });"""),
    ("src/client.rs", """    /// Index to acknowledge once the message is consumed.
    mutate_index: MutateIndex,
""", """    /// Index to acknowledge once the message is consumed.
    mutate_index: MutateIndex,

    acked: bool,
"""))
mut("C11", "client_acks_only_successfully_applied", "a message whose application failed is consumed without being acknowledged", ["C11.R4/client/every-consumed-message-acked"],
    ("src/client.rs", """        if let Err(e) = postcard_utils::to_extend_mut(&mutate.mutate_index, acks) {
            error!(
                "unable to acknowledge mutate message for tick `{:?}`: {e}",
                mutate.message_tick
            );
        }

        trace!("applying mutate message for {:?}", mutate.message_tick);""", """        trace!("applying mutate message for {:?}", mutate.message_tick);"""),
    ("src/client.rs", """        match len {
            Ok(len) => {
                if let Some(stats) = &mut params.stats {
                    stats.entities_changed += len;
                }
            }""", """        match len {
            Ok(len) => {
                if let Err(e) = postcard_utils::to_extend_mut(&mutate.mutate_index, acks) {
                    error!("unable to acknowledge mutate message: {e}");
                }
                if let Some(stats) = &mut params.stats {
                    stats.entities_changed += len;
                }
            }"""))
mut("C11", "client_acks_sent_before_consuming", "the acknowledgement buffer is sent before the buffered messages are consumed (always empty)", ["C11.R4/apply_replication/acks-sent-after-consuming"],
    ("src/client.rs", """    let mut acks = Vec::new();
    apply_mutate_messages(world, params, buffered_mutations, update_tick, &mut acks);
    if !acks.is_empty() {
        client.send(ClientChannel::MutationAcks, acks);
    }""", """    let mut acks = Vec::new();
    if !acks.is_empty() {
        client.send(ClientChannel::MutationAcks, acks.clone());
    }
    apply_mutate_messages(world, params, buffered_mutations, update_tick, &mut acks);"""))
mut("C11", "client_sends_other_buffer", "a fresh buffer instead of the collected acknowledgements is sent", ["C11.R4/apply_replication/sends-the-collected-acks"],
    ("src/client.rs", """    if !acks.is_empty() {
        client.send(ClientChannel::MutationAcks, acks);
    }""", """    if !acks.is_empty() {
        client.send(ClientChannel::MutationAcks, Vec::with_capacity(acks.len()));
    }"""))

# ------------------------------------------------------------------ C09
mut("C09", "reintroduce_d8_buffers_not_reset", "server::reset forgets the despawn buffer", ["DespawnBuffer/reset-on-stop"],
    ("src/server.rs", "    despawn_buffer.clear();\n    removal_buffer.clear();\n", "    removal_buffer.clear();\n    let _ = &mut despawn_buffer;\n"))
mut("C09", "client_reset_forgets_buffered_mutations", "buffered mutate messages survive a reconnect", ["BufferedMutations/reset-on-disconnect"],
    ("src/client.rs", "    entity_map.clear();\n    buffered_mutations.clear();\n", "    entity_map.clear();\n    let _ = &mut buffered_mutations;\n"))
mut("C09", "client_reset_forgets_update_tick", "the last update tick survives a reconnect", ["ServerUpdateTick/reset-on-disconnect"],
    ("src/client.rs", "    *update_tick = Default::default();\n    entity_map.clear();", "    let _ = &mut update_tick;\n    entity_map.clear();"))
mut("C09", "entity_map_clear_one_direction", "ServerEntityMap::clear forgets the reverse map", ["ServerEntityMap::clear/touches-every-field"],
    ("src/shared/server_entity_map.rs", "        self.client_to_server.clear();\n        self.server_to_client.clear();", "        self.server_to_client.clear();"))
mut("C09", "event_queues_not_reset", "queued server events survive into the next session", ["ServerEvent::queue_id/reset-on-connect"],
    ("src/client/event.rs", """    for event in event_registry.iter_all_server() {
        let queue = queues
            .get_mut_by_id(event.queue_id())
            .expect("event queue resource should be accessible");

        // SAFETY: passed pointer was obtained using this event data.
        unsafe { event.reset(queue.into_inner()) };
    }
}""", """    let _ = &mut queues;
}"""))
mut("C09", "new_session_resource_unclassified", "a new resource written by the receive system is never reset", ["unclassified"],
    ("src/client.rs", """pub(super) fn receive_replication(
    world: &mut World,""", """#[derive(Resource, Default)]
pub(crate) struct LastAppliedMessages(pub Vec<RepliconTick>);

pub(super) fn receive_replication(
    world: &mut World,"""),
    ("src/client.rs", """                                let mut stats = world.remove_resource::<ClientReplicationStats>();""", """                                if let Some(mut last) = world.get_resource_mut::<LastAppliedMessages>() {
                                    last.0.push(Default::default());
                                }
                                let mut stats = world.remove_resource::<ClientReplicationStats>();"""))
mut("C09", "set_status_keeps_sent_queue", "unsent messages survive a disconnect", ["purges-both-queues"],
    ("src/shared/backend/replicon_client.rs", "            self.sent_messages.clear();\n\n            self.stats", "            self.stats"))
mut("C09", "set_status_purges_only_on_disconnected", "Connected -> Connecting keeps queued messages", ["purged-whenever-leaving-connected"],
    ("src/shared/backend/replicon_client.rs", "if self.is_connected() && !matches!(status, RepliconClientStatus::Connected) {", "if self.is_connected() && matches!(status, RepliconClientStatus::Disconnected) && !self.received_messages.is_empty() {"))
mut("C09", "client_send_when_disconnected", "client queues messages without a connection", ["RepliconClient::send/no-op-unless-connected"],
    ("src/shared/backend/replicon_client.rs", """            warn!("trying to send a message when the client is not connected");
            return;""", """            warn!("trying to send a message when the client is not connected");"""))
mut("C09", "server_stop_keeps_received", "messages received before a stop are processed after restart", ["RepliconServer::set_running/purges-both-queues"],
    ("src/shared/backend/replicon_server.rs", """            for receive_channel in &mut self.received_messages {
                receive_channel.clear();
            }
            self.sent_messages.clear();""", """            self.sent_messages.clear();"""))
mut("C09", "remove_client_keeps_received", "messages of a removed client stay queued", ["remove_client/both-queues"],
    ("src/shared/backend/replicon_server.rs", """        for receive_channel in &mut self.received_messages {
            receive_channel.retain(|&(entity, _)| entity != client);
        }
        self.sent_messages""", """        self.sent_messages"""))
mut("C09", "server_reset_keeps_clients", "server stop does not despawn connected clients", ["despawns-all-clients"],
    ("src/server.rs", """    for entity in &clients {
        commands.entity(entity).despawn();
    }
}""", """    let _ = (&clients, &mut commands);
}"""))
mut("C09", "client_reset_on_connect_instead", "client state is reset on connect instead of on disconnect", ["ClientSet::Reset/runs-on-disconnect"],
    ("src/client.rs", "ClientSet::Reset.run_if(client_just_disconnected),", "ClientSet::Reset.run_if(client_just_connected),"))
mut("C09", "reset_after_receive", "the reset sets run after ClientSet::Receive", ["resets-before-receive"],
    ("src/client.rs", """                    (
                        ClientSet::ResetEvents.run_if(client_just_connected),
                        ClientSet::Reset.run_if(client_just_disconnected),
                    ),
                    ClientSet::Receive,""", """                    ClientSet::Receive,
                    (
                        ClientSet::ResetEvents.run_if(client_just_connected),
                        ClientSet::Reset.run_if(client_just_disconnected),
                    ),"""))
mut("C09", "server_reset_not_on_stop", "server reset gated by server_running", ["server::reset/runs-on-stop", "reset-on-stop", "reset-system"],
    ("src/server.rs", "reset.run_if(server_just_stopped),", "reset.run_if(server_running),"))

# ------------------------------------------------------------------ C07
SE = "src/shared/event/server_event.rs"
mut("C07", "broadcast_ignores_authorization", "dependent broadcast events are sent to clients without tick state", ["guarded-by-ticks-Some", "unclassified", "classified"],
    (SE, """                            if let Some(ticks) = ticks {
                                event.send(server, client_entity, ticks)?;
                            } else {
                                debug!(
                                    "ignoring broadcast for channel {} for non-authorized client `{client_entity}`",
                                    event.channel_id
                                );
                            }""", """                            if let Some(ticks) = ticks {
                                event.send(server, client_entity, ticks)?;
                            } else {
                                let message = event.message.get_bytes(Default::default())?;
                                server.send(client_entity, event.channel_id, message);
                            }"""))
mut("C07", "direct_uses_default_ticks", "direct events fall back to default ticks for unauthorized clients", ["guarded-by-ticks-Some", "ticks-belong-to-recipient"],
    (SE, """                                if let Some(ticks) = ticks {
                                    event.send(server, client_entity, ticks)?;
                                } else {
                                    error!(""", """                                let default_ticks = ClientTicks::default();
                                if let Some(ticks) = ticks.or(Some(&default_ticks)) {
                                    event.send(server, client_entity, ticks)?;
                                } else {
                                    error!("""))
mut("C07", "authorized_components_required_by_connected_client", "Updates/Mutations become part of every connected client under AuthMethod::Custom", ["required-only-by-AuthorizedClient"],
    ("src/server.rs", "            AuthMethod::Custom => (),\n        }\n    }\n\n    fn finish", "            AuthMethod::Custom => {\n                app.register_required_components::<ConnectedClient, Updates>();\n                app.register_required_components::<ConnectedClient, Mutations>();\n            }\n        }\n    }\n\n    fn finish"))
mut("C07", "independent_flag_ignored", "every server event is sent immediately to all connected clients", ["independent-only-when-flagged", "dependent-events-buffered"],
    (SE, "            if self.independent {\n                unsafe {\n                    self.send_independent_event", "            if self.independent || self.channel_id > 100 {\n                unsafe {\n                    self.send_independent_event"))
mut("C07", "event_constructed_independent", "server events start out independent", ["constructed-dependent"],
    (SE, "            independent: false,\n            events_id,", "            independent: true,\n            events_id,"))
mut("C07", "updates_sent_to_wrong_entity", "update message of one client goes to another entity", ["recipient-is-buffer-owner", "sends-to-given-client"],
    ("src/server/replication_messages/updates.rs", "        server.send(client, ServerChannel::Updates, message);", "        server.send(Entity::PLACEHOLDER, ServerChannel::Updates, message);"))
mut("C07", "new_unclassified_send_site", "connection greeting sent to every connected client", ["classified"],
    ("src/server.rs", """    debug!("client `{}` connected", trigger.target());
    buffered_events.exclude_client(trigger.target());
}""", """    debug!("client `{}` connected", trigger.target());
    buffered_events.exclude_client(trigger.target());
}

#[allow(dead_code)]
fn greet(server: &mut RepliconServer, client: Entity) {
    server.send(client, crate::shared::backend::channels::ServerChannel::Updates, Vec::new());
}"""))

# ------------------------------------------------------------------ C08
mut("C08", "insertion_ignores_hidden", "hidden check dropped from the component loop (insertions and mutations of hidden entities are written)", ["add_inserted_component", "add_component", "add_entity", "add_changed_entity"],
    ("src/server.rs", """                    if updates.entity_visibility() == Visibility::Hidden {
                        continue;
                    }

                    if let Some(tick) = client_ticks""", """                    if let Some(tick) = client_ticks"""))
mut("C08", "hidden_test_inverted_in_merge_loop", "the post-component loop skips visible entities instead of hidden ones", ["take_added_entity", "set_mutation_tick"],
    ("src/server.rs", """                let visibility = updates.entity_visibility();
                if visibility == Visibility::Hidden {
                    continue;
                }""", """                let visibility = updates.entity_visibility();
                if visibility == Visibility::Visible {
                    continue;
                }"""))
mut("C08", "removals_ignore_visibility", "component removals of hidden entities are sent", ["collect_removals/add_removals"],
    ("src/server.rs", "            if visibility.is_none_or(|v| v.is_visible(entity)) {\n                trace!(\n                    \"writing removals", "            if visibility.is_none_or(|v| v.is_visible(entity)) || ids_len > 0 {\n                trace!(\n                    \"writing removals"))
mut("C08", "despawn_ignores_visibility", "despawns of hidden entities are sent", ["collect_despawns/add_despawn"],
    ("src/server.rs", """                if visibility.is_visible(entity) {
                    trace!("writing despawn for `{entity}` for client `{client_entity}`");
                    message.add_despawn(entity_range.clone());
                }
                visibility.remove_despawned(entity);""", """                trace!("writing despawn for `{entity}` for client `{client_entity}`");
                message.add_despawn(entity_range.clone());
                visibility.remove_despawned(entity);"""))
mut("C08", "default_state_hidden_checked_elsewhere", "state of the archetype's first entity is used for all entities", ["state-of-iterated-entity"],
    ("src/server.rs", ".map(|v| v.state(entity.id()))", ".map(|v| v.state(archetype.entities()[0].id()))"))
mut("C08", "no_visibility_component_means_hidden", "clients without a visibility component see nothing... or rather default flipped", ["default-visibility"],
    ("src/server.rs", ".unwrap_or(Visibility::Visible);", ".unwrap_or(Visibility::Gained);"))
mut("C08", "is_visible_true_for_hidden_gained_false", "is_visible treats Gained as hidden", ["is_visible/false-exactly-for-Hidden"],
    ("src/server/client_visibility.rs", """            Visibility::Hidden => false,
            Visibility::Gained | Visibility::Visible => true,""", """            Visibility::Hidden | Visibility::Gained => false,
            Visibility::Visible => true,"""))
mut("C08", "whitelist_absent_is_visible", "whitelist treats unknown entities as visible", ["state/Whitelist-None"],
    ("src/server/client_visibility.rs", """                Some(WhitelistInfo::Visible) => Visibility::Visible,
                None => Visibility::Hidden,""", """                Some(WhitelistInfo::Visible) => Visibility::Visible,
                None => Visibility::Visible,"""))
mut("C08", "blacklist_hidden_is_gained", "blacklisted entities are classified as just gained (full data sent)", ["state/Blacklist-Some-Hidden"],
    ("src/server/client_visibility.rs", "                Some(BlacklistInfo::Hidden) => Visibility::Hidden,", "                Some(BlacklistInfo::Hidden) => Visibility::Gained,"))
mut("C08", "commit_only_when_updates_sent", "visibility is committed only when an update message was sent", ["commit-unconditional"],
    ("src/server.rs", """        if let Some(mut visibility) = visibility {
            visibility.update();
        }""", """        if let (Some(mut visibility), false) = (visibility, updates.is_empty()) {
            visibility.update();
        }"""))
mut("C08", "public_visibility_fields", "visibility list is publicly writable", ["ClientVisibility.added/private"],
    ("src/server/client_visibility.rs", "pub struct ClientVisibility {\n    /// List of entities", "pub struct ClientVisibility {\n    /// List of entities") if False else ("src/server/client_visibility.rs", "    added: EntityHashSet,", "    pub added: EntityHashSet,"))

# state machine (C08.R5)
mut("C08", "reintroduce_d17_whitelist_readd_forgets_removal", "whitelist: re-showing an entity hidden in this tick marks it as new and forgets the removal", ["C08.R5/Whitelist/loss-reported"],
    ("src/server/client_visibility.rs", """                    if self.removed.remove(&entity) {
                        list.insert(entity, WhitelistInfo::Visible);
                        return;
                    }

""", """                    self.removed.remove(&entity);
"""))
mut("C08", "reintroduce_d11_despawn_drops_lost_record", "remove_despawned drops the lost-visibility record of the despawned entity", ["C08.R5/Blacklist/despawn-reported"],
    ("src/server/client_visibility.rs", """                if list.remove(&entity).is_some() {
                    self.removed.remove(&entity);
                }""", """                if list.remove(&entity).is_some() {
                    self.removed.remove(&entity);
                    self.added.remove(&entity);
                }"""))
mut("C08", "seeded_c08a_blacklist_rehide_keeps_queued_removal", "blacklist: re-hiding an entity queued for removal keeps it queued (un-hidden at the end of the tick)", ["C08.R5/Blacklist/"],
    ("src/server/client_visibility.rs", """                    if list.insert(entity, BlacklistInfo::Hidden).is_some() {
                        self.removed.remove(&entity);
                        return;
                    };

                    self.added.insert(entity);""", """                    if list.insert(entity, BlacklistInfo::Hidden).is_none() {
                        self.added.insert(entity);
                    }"""))
mut("C08", "blacklist_show_undo_keeps_entry", "blacklist: showing an entity hidden in this tick forgets the loss but keeps it in the list", ["C08.R5/Blacklist/"],
    ("src/server/client_visibility.rs", """                    if self.added.remove(&entity) {
                        entry.remove();
                        return;
                    }""", """                    if self.added.remove(&entity) {
                        return;
                    }"""))
mut("C08", "whitelist_hide_undo_dropped", "whitelist: hiding an entity added in this tick reports a loss for an entity the client never had... and keeps it as added", ["C08.R5/Whitelist/"],
    ("src/server/client_visibility.rs", """                    if self.added.remove(&entity) {
                        return;
                    }

                    self.removed.insert(entity);""", """                    self.removed.insert(entity);"""))
mut("C08", "update_keeps_whitelist_just_added", "end-of-tick commit no longer turns JustAdded into Visible (entities are re-sent in full every tick)... and clears nothing", ["C08.R5/Whitelist/"],
    ("src/server/client_visibility.rs", """                for entity in self.added.drain() {
                    list.insert(entity, WhitelistInfo::Visible);
                }
                self.removed.clear();""", """                self.added.clear();
                self.removed.clear();"""))
mut("C08", "update_blacklist_keeps_queued", "end-of-tick commit does not remove blacklist entries queued for removal", ["C08.R5/Blacklist/"],
    ("src/server/client_visibility.rs", """                for entity in self.removed.drain() {
                    list.remove(&entity);
                }
                self.added.clear();""", """                self.removed.clear();
                self.added.clear();"""))
mut("C08", "drain_lost_sets_swapped", "drain_lost drains the gained set instead of the lost set", ["C08.R5/"],
    ("src/server/client_visibility.rs", """            VisibilityList::Blacklist(_) => self.added.drain(),
            VisibilityList::Whitelist(_) => self.removed.drain(),""", """            VisibilityList::Blacklist(_) => self.removed.drain(),
            VisibilityList::Whitelist(_) => self.added.drain(),"""))
mut("C08", "lost_drained_before_despawns", "lost visibility is drained before despawned entities are processed (protocol order the exploration assumes)", ["C08.R5/collect_despawns/lost-drained-after-despawns"],
    ("src/server.rs", """    for entity in despawn_buffer.drain(..) {
        let entity_range = serialized.write_entity(entity)?;
        for (client_entity, mut message, .., mut ticks, visibility) in &mut *clients {""", """    for (client_entity, mut message, .., mut ticks, visibility) in &mut *clients {
        if let Some(mut visibility) = visibility {
            for entity in visibility.drain_lost() {
                trace!("writing visibility lost for `{entity}` for client `{client_entity}`");
                let entity_range = serialized.write_entity(entity)?;
                message.add_despawn(entity_range);
                ticks.remove_entity(entity);
            }
        }
    }

    for entity in despawn_buffer.drain(..) {
        let entity_range = serialized.write_entity(entity)?;
        for (client_entity, mut message, .., mut ticks, visibility) in &mut *clients {"""),
    ("src/server.rs", """    for (client_entity, mut message, .., mut ticks, visibility) in clients {
        if let Some(mut visibility) = visibility {
            for entity in visibility.drain_lost() {
                trace!("writing visibility lost for `{entity}` for client `{client_entity}`");
                let entity_range = serialized.write_entity(entity)?;
                message.add_despawn(entity_range);
                ticks.remove_entity(entity);
            }
        }
    }

    Ok(())""", """    Ok(())"""))
mut("C08", "forget_only_visible_despawned", "remove_despawned is called only for entities visible to the client", ["C08.R5/collect_despawns/forget-unconditional", "C08.R5/collect_despawns/query-before-forget"],
    ("src/server.rs", """                    message.add_despawn(entity_range.clone());
                }
                visibility.remove_despawned(entity);""", """                    message.add_despawn(entity_range.clone());
                    visibility.remove_despawned(entity);
                }"""))
mut("C08", "changes_collected_before_despawns", "collect_changes runs before collect_despawns (state() read before the lost set is drained)", ["C08.R5/send_replication/collect_despawns-before-collect_changes"],
    ("src/server.rs", """    collect_despawns(&mut serialized, &mut clients, &mut despawn_buffer)?;
    collect_removals(&mut serialized, &mut clients, &removal_buffer)?;
    collect_changes(""", """    collect_removals(&mut serialized, &mut clients, &removal_buffer)?;
    collect_changes("""),
    ("src/server.rs", """    removal_buffer.clear();

    send_messages(""", """    removal_buffer.clear();
    collect_despawns(&mut serialized, &mut clients, &mut despawn_buffer)?;

    send_messages("""))

mut("C03", "seeded_c03a_removals_only_for_visible_with_d17", "removals are filtered on state == Visible while a re-shown whitelist entity is classified Gained although the client holds it (c03a on the pre-29f59ef state machine)", ["C03.R6/server::collect_removals/add_removals#1"],
    ("src/server.rs", "            if visibility.is_none_or(|v| v.is_visible(entity)) {\n                trace!(\n                    \"writing removals", "            if visibility.is_none_or(|v| v.state(entity) == Visibility::Visible) {\n                trace!(\n                    \"writing removals"),
    ("src/server/client_visibility.rs", """                    if self.removed.remove(&entity) {
                        list.insert(entity, WhitelistInfo::Visible);
                        return;
                    }

""", """                    self.removed.remove(&entity);
"""))

mut("C15", "seeded_c15a_index_shifted_in_u32", "the index is shifted in u32 before widening (bit 31 of the index is dropped)", ["C15.R4/shared::entity_serde::serialize_entity/lossless/shl#1"],
    ("src/shared/entity_serde.rs", """    let mut flagged_index = (entity.index() as u64) << 1;
    let flag = entity.generation() > 1;
    flagged_index |= flag as u64;
""", """    let flag = entity.generation() > 1;
    let flagged_index = u64::from(entity.index() << 1 | flag as u32);
"""))
mut("C15", "reader_shifts_index_by_two", "the reader drops two low bits of the flagged index", ["C15.R4/layout/index-shift"],
    ("src/shared/entity_serde.rs", "(flagged_index >> 1)", "(flagged_index >> 2)"))
mut("C15", "generation_offset_mismatch", "the writer subtracts 1 from the generation, the reader adds 2", ["C15.R4/layout/generation-offset"],
    ("src/shared/entity_serde.rs", ".checked_add(1)", ".checked_add(2)"))
mut("C15", "generation_threshold_mismatch", "the writer omits generations up to 2, the reader substitutes 1", ["C15.R4/layout/absent-generation-default"],
    ("src/shared/entity_serde.rs", "    let flag = entity.generation() > 1;", "    let flag = entity.generation() > 2;"))
mut("C15", "flagged_index_narrowed_to_u32", "the flagged index is written as u32 (top bit of the index lost)", ["C15.R4/"],
    ("src/shared/entity_serde.rs", "    postcard_utils::to_extend_mut(&flagged_index, message)?;", "    postcard_utils::to_extend_mut(&(flagged_index as u32), message)?;"))
mut("C18", "seeded_c18a_binary_search_on_unsorted", "already-exported ids are looked up with a binary search although the vector is only appended to", ["C18.R1/scene::replicate_into/push"],
    ("src/scene.rs", "                if exported_ids.contains(&component.id) {", "                if exported_ids.binary_search(&component.id).is_ok() {"))
mut("C18", "dedup_against_last_only", "only the most recently exported id is compared", ["C18.R1/scene::replicate_into/push"],
    ("src/scene.rs", "                if exported_ids.contains(&component.id) {", "                if exported_ids.last() == Some(&component.id) {"))

mut("C13", "reintroduce_d15_resend_ignores_cursor", "local re-emission drains everything, including events the send cursor already consumed", ["C13.R4/ClientEvent::events_id/Connected->Disconnected"],
    ("src/shared/event/client_event.rs", "client_events.send_batch(events.drain().skip(sent).map(|event| FromClient {", "client_events.send_batch(events.drain().skip(0).map(|event| FromClient {"))
mut("C13", "resend_skips_by_buffer_length", "the number of skipped events is derived from the buffer alone, not from the send cursor", ["C13.R4/ClientEvent::events_id/Connected->Disconnected"],
    ("src/shared/event/client_event.rs", "        let sent = events.len() - reader.len(events);", "        let sent = events.len() - events.len().min(events.iter_current_update_events().count());"))
mut("C13", "resend_gets_wrong_reader", "the resend system hands over a resource that is not the event's send cursor", ["C13.R4/ClientEvent::events_id/Connected->Disconnected"],
    ("src/client/event.rs", """        let reader = readers
            .get_mut_by_id(event.reader_id())
            .expect("event reader resource should be accessible");

        // SAFETY: passed pointers were obtained using this event data.
        unsafe {
            event.resend_locally(""", """        let reader = readers
            .get_mut_by_id(event.events_id())
            .expect("event reader resource should be accessible");

        // SAFETY: passed pointers were obtained using this event data.
        unsafe {
            event.resend_locally("""))

mut("C03", "seeded_c03b_removal_ids_pooled_uncleared", "removal-id vectors go back to the pool without being cleared", ["C03.R8/server::removal_buffer::RemovalBuffer.ids_buffer"],
    ("src/server/removal_buffer.rs", """    pub(super) fn clear(&mut self) {
        self.ids_buffer
            .extend(self.removals.drain().map(|(_, mut components)| {
                components.clear();
                components
            }));""", """    pub(super) fn clear(&mut self) {
        self.ids_buffer
            .extend(self.removals.drain().map(|(_, components)| components));"""))
mut("C04", "seeded_c04b_unmapped_record_cleared_before_check", "the record of unmapped entities is cleared before the event's own entities are mapped (trigger targets recorded earlier are forgotten)", ["C04.R5/shared::event::server_event::default_deserialize_mapped/invalid_entities.clear-only-after-refusal"],
    ("src/shared/event/server_event.rs", """    let mut event: E = postcard_utils::from_buf(bytes)?;
    event.map_entities(ctx);""", """    let mut event: E = postcard_utils::from_buf(bytes)?;
    ctx.invalid_entities.clear();
    event.map_entities(ctx);"""))
mut("C05", "seeded_c05b_empty_set_reused", "start_tick keeps using an empty active set (which may already have excluded clients)", ["C05.R2/start_tick/opens-a-set-on-every-call"],
    ("src/shared/event/server_event.rs", """    pub(crate) fn start_tick(&mut self) {
        self.buffer.push(self.cache.pop().unwrap_or_default());""", """    pub(crate) fn start_tick(&mut self) {
        if self
            .active_tick()
            .is_some_and(|set| set.events.is_empty())
        {
            return;
        }

        self.buffer.push(self.cache.pop().unwrap_or_default());"""))
mut("C05", "set_opened_only_when_events_pending", "the per-frame system opens a set only when the server is running... and some condition", ["C05.R2/send_or_buffer/opens-set-first"],
    ("src/server/event.rs", "    buffered_events.start_tick();", "    if !clients.is_empty() {\n        buffered_events.start_tick();\n    }"))

mut("C03", "reintroduce_d12_despawn_keeps_removals", "a despawned entity keeps the removals buffered for it earlier in the tick window", ["C03.R9/server::buffer_despawns/despawn-supersedes-removals"],
    ("src/server.rs", """        // Removals buffered in previous frames are superseded by the despawn.
        removal_buffer.remove_entity(trigger.target());
""", ""))
mut("C03", "removals_forgotten_for_other_entity", "the removals of the observer entity instead of the despawned entity are forgotten", ["C03.R9/server::buffer_despawns/despawn-supersedes-removals"],
    ("src/server.rs", "        removal_buffer.remove_entity(trigger.target());", "        removal_buffer.remove_entity(trigger.observer());"))

mutp("C07", "seeded_c07b_merged_independent_lookup", "make_*_independent look the entry up among events and triggers by user type (first match wins): seeded change c07b",
     ["C07.R4/<bevy_app::app::App as shared::event::server_trigger::ServerTriggerAppExt>::make_trigger_independent/marks-own-kind-only"], "seeded/c07b/patch.diff")
mut("C08", "seeded_c08b_lost_despawn_only_with_tick", "the despawn for an entity that lost visibility is skipped when the client has no mutation tick for it (a same-tick despawn removed the tick)", ["C08.R5/collect_despawns/lost-entities-despawned-unconditionally"],
    ("src/server.rs", """            for entity in visibility.drain_lost() {
                trace!("writing visibility lost""", """            for entity in visibility.drain_lost() {
                if ticks.mutation_tick(entity).is_none() {
                    continue;
                }
                trace!("writing visibility lost"""))
mut("C09", "seeded_c09b_purge_only_authorized", "queued messages are purged only for clients that were authorized", ["C09.R2/server/purge-on-client-removal/unconditional"],
    ("src/server.rs", """    mut server: ResMut<RepliconServer>,
) {
    debug!("client `{}` disconnected", trigger.target());
    server.remove_client(trigger.target());""", """    mut server: ResMut<RepliconServer>,
    clients: Query<(), With<ClientTicks>>,
) {
    debug!("client `{}` disconnected", trigger.target());
    if clients.contains(trigger.target()) {
        server.remove_client(trigger.target());
    }"""))
mut("C06", "seeded_c06b_received_not_purged", "remove_client no longer purges the removed client's received messages", ["C06.R4/RepliconServer::remove_client/both-queues"],
    ("src/shared/backend/replicon_server.rs", """        for receive_channel in &mut self.received_messages {
            receive_channel.retain(|&(entity, _)| entity != client);
        }
""", ""))
mut("C11", "seeded_c11b_expired_lists_pooled_uncleared", "entity lists are cleared when released by an ack but the timeout path still pools them uncleared", ["C11.R6/shared::replication::client_ticks::EntityBuffer"],
    ("src/shared/replication/client_ticks.rs", """        let mut entities = entity_buffer.pop().unwrap_or_default();
        entities.clear();
""", """        let entities = entity_buffer.pop().unwrap_or_default();
"""),
    ("src/shared/replication/client_ticks.rs", """        entity_buffer.push(mutate_info.entities);
""", """        let mut released = mutate_info.entities;
        released.clear();
        entity_buffer.push(released);
"""))

mutp("C14", "seeded_c14b_component_count_hashed_as_priority", "replicate_with_priority feeds the hasher the rule's component count instead of the priority argument (seeded change c14b)",
     ["C14.R1/<bevy_app::app::App as shared::replication::replication_rules::AppRuleExt>::replicate_with_priority/ReplicationRules::insert/value-arg-1-is-parameter"], "seeded/c14b/patch.diff")
mutp("C12", "seeded_c12b_confirm_at_buffer_time", "a tick is counted as received when its mutate message is buffered, not when it is applied (seeded change c12b)",
     ["C12.R4/client::buffer_mutate_message/confirm-after-apply"], "seeded/c12b/patch.diff")
mutp("C13", "seeded_c13b_direct_server_goes_on_wire", "an independent event sent Direct(SERVER) is also queued for the network (seeded change c13b)",
     ["C13.R6/send_independent_event/Direct/guards"], "seeded/c13b/patch.diff")

mutp("C03", "seeded_c03c_flush_skipped_when_nothing_buffered", "DeferredEntity::flush returns early when no insertion/removal is buffered: entities reserved by in-place entity mapping are not materialised (seeded change c03c)",
     ["C03.R10/DeferredEntity::flush/flushes-world-unconditionally"], "seeded/c03c/patch.diff")
mutp("C02", "seeded_c02c_expired_ack_lists_pooled_uncleared", "entity lists of expired mutate messages go back to the pool uncleared (seeded change c02c)",
     ["C02.R7/shared::replication::client_ticks::EntityBuffer"], "seeded/c02c/patch.diff")
mutp("C08", "seeded_c08c_hidden_guard_moved_to_insertion_branch", "the hidden guard covers only the insertion branch and lost visibility no longer forgets the tick: mutations of hidden entities are sent (seeded change c08c)",
     ["C08.R1/server::collect_changes/add_component"], "seeded/c08c/patch.diff")
mutp("C01", "seeded_c01c_removals_buffered_only_on_tick_frames", "buffer_removals runs only on tick frames: removal events older than two frames are lost (seeded change c01c)",
     ["C01.R6/buffer_removals/every-frame-before-replication"], "seeded/c01c/patch.diff")
mut("C03", "mutations_handler_returns_before_flush", "apply_mutations returns right after the component loop without flushing the entity", ["C03.R10/client::apply_mutations/flushes-its-entity"],
    ("src/client.rs", """    if let Some(stats) = &mut params.stats {
        stats.components_changed += components_count;
    }

    client_entity.flush();

    Ok(())
}

/// Borrowed resources""", """    if let Some(stats) = &mut params.stats {
        stats.components_changed += components_count;
    } else {
        return Ok(());
    }

    client_entity.flush();

    Ok(())
}

/// Borrowed resources"""))

mutp("C10", "seeded_c10c_only_first_edge_removed", "remove_relation removes only the first matching edge although adding creates parallel edges (seeded change c10c)",
     ["C10.R5/remove_relation/undoes-every-add"], "seeded/c10c/patch.diff")

mutp("C13", "seeded_c13c_send_cursor_restored_from_checkpoint", "the send cursor is restored from a checkpoint taken before the batch when an event fails to serialise (seeded change c13c)",
     ["C13.R7/ClientEventReader/never-rewound"], "seeded/c13c/patch.diff")
mutp("C05", "seeded_c05c_stamping_cache_overwritten", "the tick-stamping cache is overwritten with the last recipient's bytes while the cached tick size is stale (seeded change c05c)",
     ["C05.R8/get_bytes/cached-bytes-only-for-same-tick"], "seeded/c05c/patch.diff")
mutp("C09", "seeded_c09c_only_active_set_excludes_new_client", "a newly connected client is excluded only from the active buffered set (seeded change c09c)",
     ["C09.R5/exclude_client/every-buffered-set"], "seeded/c09c/patch.diff")
mutp("C07", "seeded_c07c_independent_parts_merged", "event and trigger independence hash to the same part (seeded change c07c)",
     ["C07.R7/"], "seeded/c07c/patch.diff")

mutp("C17", "seeded_c17c_sequence_counter_u16", "the insertion counter that breaks timestamp ties is a wrapping u16 (seeded change c17c)",
     ["C17.R1/bevy_replicon_example_backend::link_conditioner::TimedMessage/sequence-counter-wide-enough"], "seeded/c17c/patch.diff")
mutp("C12", "seeded_c12c_tick_counters_u8", "the per-tick message counters are clamped to u8 (seeded change c12c)",
     ["C12.R4/TickMessages.messages_count/as-wide-as-the-wire-count"], "seeded/c12c/patch.diff")

mutp("C03", "seeded_c03d_merged_despawn_not_counted", "a despawn whose byte range is merged into the previous one is not counted (seeded change c03d)",
     ["C03.R11/server::replication_messages::updates::Updates::add_despawn/despawns_len-counted-on-every-path"], "seeded/c03d/patch.diff")
mutp("C05", "seeded_c05d_queue_released_after_new_events", "the client reads the channel first and releases its queue afterwards (seeded change c05d)",
     ["C05.R9/receive_typed/queue-released-before-new-events"], "seeded/c05d/patch.diff")
mutp("C02", "seeded_c02d_ack_confirms_arrival_tick", "an acknowledgement sets the entity's tick to the tick at which the ack arrives (seeded change c02d)",
     ["C02.R8/ack/stores-the-recorded-tick"], "seeded/c02d/patch.diff")

mutp("C04", "seeded_c04d_dead_entity_keeps_mapping", "a despawn record for an entity that is already gone on the client leaves its mapping in place (seeded change c04d)",
     ["C04.R5/apply_despawn/unmaps-on-every-path"], "seeded/c04d/patch.diff")

mutp("C07", "seeded_c07d_targeted_hash_ignored", "check_protocol returns early for a hash trigger that carries a target (seeded change c07d)",
     ["C07.R5/check_protocol/every-hash-is-compared"], "seeded/c07d/patch.diff")
mutp("C09", "seeded_c09d_reset_skipped_before_first_update", "the client reset returns early while no update message has been applied (seeded change c09d)",
     ["C09.R1/client/client::BufferedMutations/reset-on-disconnect/unconditional"], "seeded/c09d/patch.diff")
mutp("C10", "seeded_c10d_packing_test_without_mutate_index", "the packing test leaves the mutate index out of the header size (seeded change c10d)",
     ["C10.R6/send/can_pack-tests-the-sent-size"], "seeded/c10d/patch.diff")

mutp("C12", "seeded_c12d_range_reaching_newest_tick_is_true", "contains_any answers true whenever the range reaches the newest tick (seeded change c12d)",
     ["C12.R5/server_mutate_ticks::ServerMutateTicks::contains_any/constant-true-only-below-the-window"], "seeded/c12d/patch.diff")
mutp("C15", "seeded_c15d_reader_rejects_max_flagged_index", "the reader rejects a flagged index above (u32::MAX << 1), forgetting the flag bit (seeded change c15d)",
     ["C15.R4/layout/reader-accepts-writer-range"], "seeded/c15d/patch.diff")
mutp("C17", "seeded_c17d_read_budget_drops_message", "a per-frame read budget is tested after the message was read from the stream (seeded change c17d)",
     ["C17.R3/bevy_replicon_example_backend::client::receive_packets/every-read-message-is-inserted"], "seeded/c17d/patch.diff")
mutp("C18", "seeded_c18d_rules_prefiltered_by_priority", "rules with a priority above the archetype's component count are skipped before matches() (seeded change c18d)",
     ["C18.R4/scene::replicate_into/all-rules-in-order"], "seeded/c18d/patch.diff")

mutp("C05", "seeded_c05e_shared_scratch_buffer_not_cleared_on_error", "client events are serialised into one scratch buffer that is not cleared when an event is refused (seeded change c05e)",
     ["C05.R4/send_typed/fresh-buffer-per-event"], "seeded/c05e/patch.diff")
mutp("C01", "seeded_c01e_old_mutate_messages_skipped_by_update_tick", "a buffered mutate message older than the client's update tick is acknowledged without being applied (seeded change c01e)",
     ["C01.R4/client/every-consumed-message-applied"], "seeded/c01e/patch.diff")
mutp("C03", "seeded_c03e_removals_collected_on_tick_frames_only", "buffer_removals runs only on tick frames (seeded change c03e)",
     ["C03.R12/buffer_removals/every-frame-before-replication"], "seeded/c03e/patch.diff")

# round f of the independently seeded changes
mutp("C12", "seeded_c12f_cmp_as_signed_values", "RepliconTick::cmp compares the raw counters reinterpreted as signed integers instead of their wrapping distance (seeded change c12f)",
     ["C12.R3/cmp/no-direct-comparison-of-counters"], "seeded/c12f/patch.diff")
mutp("C08", "seeded_c08f_gained_entity_without_components_not_written", "the empty record of a new entity is forced only for a new client, not for regained visibility (seeded change c08f)",
     ["C08.R6/"], "seeded/c08f/patch.diff")
mutp("C04", "seeded_c04f_buffered_events_flat_list_sent_to_late_joiners", "buffered events are kept in one flat list without the per-frame exclusion of late joiners (seeded change c04f)",
     ["C04.R1/"], "seeded/c04f/patch.diff")
mutp("C16", "seeded_c16f_mutate_messages_before_update_message", "send_messages builds the mutate messages before the update message that bumps the update tick (seeded change c16f)",
     ["C16.R5/"], "seeded/c16f/patch.diff")
mutp("C01", "seeded_c01f_lost_entity_despawned_only_if_tracked", "a lost entity is despawned on the client only if it had a mutation tick (seeded change c01f)",
     ["C01.R12/"], "seeded/c01f/patch.diff")
mutp("C11", "seeded_c11f_buffered_mutations_survive_disconnect", "the client reset no longer empties the buffer of waiting mutate messages (seeded change c11f)",
     ["C11.R7/client/client::BufferedMutations/reset-on-disconnect"], "seeded/c11f/patch.diff")
mutp("C10", "seeded_c10f_expired_lists_pooled_uncleared_clear_on_take_dropped", "ack drains the list, the clear on take is dropped, expiry still pools uncleared lists (seeded change c10f)",
     ["C10.R7/"], "seeded/c10f/patch.diff")
mutp("C14", "seeded_c14f_bundle_hashed_by_component_names", "replicate_bundle hashes the component names of the rule instead of the bundle type (seeded change c14f)",
     ["C14.R2/replicate_bundle/calls-hash-once"], "seeded/c14f/patch.diff")
mut("C11", "ack_applied_to_every_tracked_entity", "an acknowledgement moves the baseline of every entity tracked for the client, not of the entities recorded for the message", ["C11.R2/ack/iterates-recorded-entities"],
    ("src/shared/replication/client_ticks.rs", """        for entity in &mutate_info.entities {
            let Some(last_tick) = self.mutation_ticks.get_mut(entity) else {""", """        let tracked: Vec<Entity> = self.mutation_ticks.keys().copied().collect();
        for entity in &tracked {
            let Some(last_tick) = self.mutation_ticks.get_mut(entity) else {"""))

# unconditional mutators (rules/mutators.py, rule R20 of the owning properties)
mutp("C16", "seeded_c16e_identical_ids_not_queued", "a mapping whose two ids have identical bits is not queued (seeded change c16e)",
     ["C16.R3/ClientEntityMap::insert/every-pair-is-queued"], "seeded/c16e/patch.diff")
mut("C03", "removal_record_skipped_when_no_ids", "add_removals returns early for an empty id list (the entity's removal record and its tick confirmation are dropped)", ["C03.R20/Updates::add_removals/always-performs-its-effect"],
    ("src/server/replication_messages/updates.rs", """        fn_ids: Range<usize>,
    ) {
        self.removals.push(RemovalRanges {""", """        fn_ids: Range<usize>,
    ) {
        if ids_len == 0 {
            return;
        }
        self.removals.push(RemovalRanges {"""))
mut("C09", "server_send_drops_empty_messages", "RepliconServer::send silently drops empty messages", ["C09.R20/RepliconServer::send/always-performs-its-effect"],
    ("src/shared/backend/replicon_server.rs", """        let channel_id = channel_id.into();
        let message: Bytes = message.into();

        trace!("sending {} bytes over channel {channel_id}", message.len());
""", """        let channel_id = channel_id.into();
        let message: Bytes = message.into();
        if message.is_empty() {
            return;
        }

        trace!("sending {} bytes over channel {channel_id}", message.len());
"""))
mut("C01", "baseline_not_forgotten_for_placeholder", "ClientTicks::remove_entity ignores some entities", ["C01.R20/ClientTicks::remove_entity/always-performs-its-effect"],
    ("src/shared/replication/client_ticks.rs", """    pub(crate) fn remove_entity(&mut self, entity: Entity) {""", """    pub(crate) fn remove_entity(&mut self, entity: Entity) {
        if entity.index() % 2 == 1 && self.mutations.is_empty() {
            return;
        }"""))
mut("C10", "mutated_entity_not_recorded_twice", "Mutations::add_entity returns early when the group already has entries of this tick (misguided de-duplication)", ["C10.R20/Mutations::add_entity/always-performs-its-effect"],
    ("src/server/replication_messages/mutations.rs", """        graph_index: Option<usize>,
        entity_range: Range<usize>,
    ) {""", """        graph_index: Option<usize>,
        entity_range: Range<usize>,
    ) {
        if self.entity_location.is_some() && self.standalone.len() > 64 {
            return;
        }"""))

mut("C05", "reintroduce_d18_unmapped_record_leaks_on_error", "ServerEvent::deserialize returns through `?` without clearing the unmapped-entity record when the inner deserialiser fails", ["C05.R5/ServerEvent::deserialize/record-does-not-outlive-the-event"],
    ("src/shared/event/server_event.rs", """        let result = unsafe {
            self.event_fns
                .typed::<ServerSendCtx, ClientReceiveCtx, E, I>()
                .deserialize(ctx, message)
        };

        // Checked even if deserialization failed to avoid leaking
        // unmapped entities into the next event.
        if ctx.invalid_entities.is_empty() {
            result
        } else {""", """        let event = unsafe {
            self.event_fns
                .typed::<ServerSendCtx, ClientReceiveCtx, E, I>()
                .deserialize(ctx, message)?
        };

        if ctx.invalid_entities.is_empty() {
            Ok(event)
        } else {"""))
mut("C05", "reintroduce_d18_on_client_serialize", "ClientEvent::serialize returns through `?` without clearing the unmapped-entity record", ["C05.R5/ClientEvent::serialize/record-does-not-outlive-the-event"],
    ("src/shared/event/client_event.rs", """        let result = unsafe {
            self.event_fns
                .typed::<ClientSendCtx, ServerReceiveCtx, E, I>()
                .serialize(ctx, event, message)
        };

        // Checked even if serialization failed to avoid leaking
        // unmapped entities into the next event.
        if ctx.invalid_entities.is_empty() {
            result
        } else {""", """        unsafe {
            self.event_fns
                .typed::<ClientSendCtx, ServerReceiveCtx, E, I>()
                .serialize(ctx, event, message)?;
        }

        if ctx.invalid_entities.is_empty() {
            Ok(())
        } else {"""))

# first-sight completeness (shared rule: C07.R6 / C03.R7 / C08.R6)
mut("C07", "seeded_c07a_rate_limited_components_skipped", "rate-limited components are skipped before the per-client pass unless just added (late-authorized clients never get them)", ["C07.R6/collect_changes/every-component-reaches-clients"],
    ("src/server.rs", """                let ctx = SerializeCtx {
                    server_tick,
                    component_id,
                    type_registry,
                };
                let mut component_range = None;""", """                if !send_mutations
                    && !marker_added
                    && !ticks.is_added(change_tick.last_run(), change_tick.this_run())
                {
                    continue;
                }

                let ctx = SerializeCtx {
                    server_tick,
                    component_id,
                    type_registry,
                };
                let mut component_range = None;"""))
mut("C07", "insertion_respects_send_rate", "the insertion path is taken only when the send rate allows mutations on this tick", ["C07.R6/collect_changes/unknown-entity-gets-insertion"],
    ("src/server.rs", """                    } else {
                        if !updates.changed_entity_added() {
                            let entity_range =
                                write_entity_cached(&mut entity_range, serialized, entity.id())?;""", """                    } else if send_mutations || marker_added {
                        if !updates.changed_entity_added() {
                            let entity_range =
                                write_entity_cached(&mut entity_range, serialized, entity.id())?;"""))
mut("C07", "old_entities_skipped_on_odd_ticks", "entities that did not just start replicating are skipped on odd ticks", ["C07.R6/collect_changes/every-entity-reaches-components"],
    ("src/server.rs", """            for &(component_rule, storage) in &replicated_archetype.components {
                let (component_id, component_fns, rule_fns) = registry.get(component_rule.fns_id);""", """            if !marker_added && server_tick.get() % 2 == 1 {
                continue;
            }

            for &(component_rule, storage) in &replicated_archetype.components {
                let (component_id, component_fns, rule_fns) = registry.get(component_rule.fns_id);"""))
mut("C03", "marker_added_does_not_force_insertion", "an entity that just started replicating gets only changed components if the client has a tick for it", ["C03.R7/collect_changes/forces-insertion/marker-added"],
    ("src/server.rs", """                        .filter(|_| !marker_added)
""", ""))
mut("C03", "component_added_does_not_force_insertion", "a freshly inserted component is sent as a mutation", ["C03.R7/collect_changes/forces-insertion/component-added"],
    ("src/server.rs", """                        .filter(|_| !ticks.is_added(change_tick.last_run(), change_tick.this_run()))
""", ""))
mut("C08", "gained_does_not_force_insertion", "an entity whose visibility was just gained gets only changed components if a tick is still recorded", ["C08.R6/collect_changes/forces-insertion/visibility-gained"],
    ("src/server.rs", """                        .filter(|_| updates.entity_visibility() != Visibility::Gained)
""", ""))

# ------------------------------------------------------------------ C10
mut("C10", "split_inside_chunk", "message boundary checked per entity inside a related group", ["boundary-between-chunks"],
    (MUTS, """            let mut mutations_size = 0;
            for mutations in chunk {
                mutations_size += mutations.ranges.size_with_components_size()?;
            }
""", """            let mut mutations_size = 0;
            for mutations in chunk {
                mutations_size += mutations.ranges.size_with_components_size()?;
                if mutations_size > max_size {
                    self.messages
                        .push((mutate_index, body_size + header_size, chunks_range.clone()));
                }
            }
"""))
mut("C10", "related_groups_chunked_singly", "related groups are flattened into one-entity chunks", ["related-group-is-one-chunk"],
    (MUTS, """        self.related
            .iter()
            .map(Vec::as_slice)
            .chain(self.standalone.chunks(1))""", """        self.related
            .iter()
            .flat_map(|group| group.chunks(1))
            .chain(self.standalone.chunks(1))"""))
mut("C10", "standalone_two_per_chunk", "standalone entities are chunked in pairs", ["standalone-one-per-chunk"],
    (MUTS, ".chain(self.standalone.chunks(1))", ".chain(self.standalone.chunks(2))"))
mut("C10", "ack_list_only_first_entity", "only the first entity of a chunk is recorded for acknowledgement", ["ack-list"],
    (MUTS, "entities.extend(chunk.iter().map(|mutations| mutations.entity));", "entities.extend(chunk.iter().take(1).map(|mutations| mutations.entity));") if False else
    (MUTS, "            entities.extend(chunk.iter().map(|mutations| mutations.entity));\n", "            if body_size == 0 {\n                entities.extend(chunk.iter().map(|mutations| mutations.entity));\n            }\n"))
mut("C10", "no_rebuild_before_collect", "relationship graphs are not rebuilt before collecting", ["rebuild-before-collect"],
    ("src/server.rs", "    related_entities.rebuild_graphs();\n\n    for (_, mut updates, mut mutations, ..) in &mut clients {", "    for (_, mut updates, mut mutations, ..) in &mut clients {"),
    ("src/server.rs", "    removal_buffer.clear();\n\n    send_messages(", "    removal_buffer.clear();\n    related_entities.rebuild_graphs();\n\n    send_messages("))
mut("C10", "group_of_other_entity", "group looked up for the archetype's first entity", ["group-of-same-entity"],
    ("src/server.rs", "let graph_index = related_entities.graph_index(entity.id());", "let graph_index = related_entities.graph_index(archetype.entities()[0].id());"))
mut("C10", "grouped_entities_stored_standalone", "entities with a group are stored as standalone", ["add_entity/"],
    (MUTS, """            Some(index) => {
                self.related[index].push(mutations);
                self.entity_location = Some(EntityLocation::Related { index });
            }""", """            Some(index) if index > 1000 => {
                self.related[index].push(mutations);
                self.entity_location = Some(EntityLocation::Related { index });
            }
            Some(_) => {
                self.entity_location = Some(EntityLocation::Standalone);
                self.standalone.push(mutations);
            }"""))
mut("C10", "observer_for_replace_missing", "relationship replacement no longer updates the graph", ["OnReplace<C>"],
    ("src/server/related_entities.rs", "        .add_observer(remove_relation::<C>)\n", ""))
mut("C10", "remove_relation_does_not_mark_dirty", "removing a relation does not trigger a rebuild", ["remove_relation/marks-dirty"],
    ("src/server/related_entities.rs", """        if self.is_orphan(source_node) {
            self.remove_entity(source, source_node);
        }

        self.rebuild_needed = true;""", """        if self.is_orphan(source_node) {
            self.remove_entity(source, source_node);
            self.rebuild_needed = true;
        }"""))
mut("C10", "startup_scan_every_frame_after", "initial relation scan runs after replication", ["startup-scan"],
    ("src/server/related_entities.rs", "                .before(super::send_replication)", "                .after(super::send_replication)"))
mut("C10", "resize_only_first_client", "only clients with pending mutations get their group buffers resized", ["resize-every-client"],
    ("src/server.rs", "        mutations.resize_related(related_entities.graphs_count());", "        if !updates.is_empty() {\n            mutations.resize_related(related_entities.graphs_count());\n        }"))
mut("C09", "reintroduce_d16_pool_not_cleared", "queued messages of the old session go back into the pool uncleared", ["ClientEventQueue.buffer"],
    ("src/shared/event/server_event/client_event_queue.rs", "            messages.clear();\n            self.buffer.push(messages);", "            self.buffer.push(messages);"))
mut("C09", "entity_buffer_not_cleared_when_taken", "entity lists taken from the pool keep the previous message's entities", ["EntityBuffer"],
    ("src/shared/replication/client_ticks.rs", "        let mut entities = entity_buffer.pop().unwrap_or_default();\n        entities.clear();", "        let mut entities = entity_buffer.pop().unwrap_or_default();"))
mut("C09", "removal_ids_pooled_uncleared", "removal id lists are pooled without clearing", ["RemovalBuffer.ids_buffer"],
    ("src/server/removal_buffer.rs", """        self.ids_buffer
            .extend(self.removals.drain().map(|(_, mut components)| {
                components.clear();
                components
            }));
    }
}

#[cfg(test)]""", """        self.ids_buffer
            .extend(self.removals.drain().map(|(_, components)| components));
    }
}

#[cfg(test)]"""))

# ------------------------------------------------------------------ C04
mut("C04", "events_before_replication", "server events are sent before replication of the tick", ["after-send_replication"],
    ("src/server/event.rs", "                    .chain()\n                    .after(super::send_replication)\n                    .in_set(ServerSet::Send),", "                    .chain()\n                    .before(super::send_replication)\n                    .in_set(ServerSet::Send),"))
mut("C04", "buffered_flushed_every_frame", "buffered events are flushed every frame, not only on ticks", ["send_buffered/only-on-tick"],
    ("src/server/event.rs", "                    send_buffered\n                        .run_if(server_running)\n                        .run_if(resource_changed::<ServerTick>),", "                    send_buffered.run_if(server_running),"))
mut("C04", "stamped_with_server_tick_default", "events are stamped with a default tick instead of the recipient's update tick", ["stamped-with-recipients-update-tick"],
    (SE, "let message = self.message.get_bytes(client.update_tick())?;", "let _ = client;\n        let message = self.message.get_bytes(RepliconTick::default())?;"))
mut("C04", "update_tick_always_bumped", "update tick is bumped even when no update message is sent", ["tick-bumped-iff-update-sent", "tick-set-before-update-sent"],
    ("src/server.rs", """        if !updates.is_empty() {
            ticks.set_update_tick(server_tick);
            let server_tick""", """        ticks.set_update_tick(server_tick);
        if !updates.is_empty() {
            let server_tick"""))
mut("C04", "cached_bytes_reused_for_any_tick", "re-stamping skipped: cached bytes reused for clients with another update tick", ["cached-bytes-only-for-same-tick"],
    (SE, "                if *tick == update_tick {\n                    return Ok(bytes.clone());\n                }", "                if *tick == update_tick || *tick_size > 0 {\n                    return Ok(bytes.clone());\n                }"))
mut("C04", "gate_inverted", "events at or behind the update tick are queued, ahead ones delivered", ["gate-orientation", "delivery-gated", "ahead"],
    (SE, "                if tick > update_tick {\n                    debug!(\"queuing event", "                if tick <= update_tick {\n                    debug!(\"queuing event"))
mut("C04", "ahead_event_also_delivered", "an event ahead of the update tick is queued and delivered at once", ["ahead-events-not-delivered", "delivery-gated"],
    (SE, "                    queue.insert(tick, message);\n                    continue;", "                    queue.insert(tick, message.clone());"))
mut("C04", "queue_released_one_tick_early", "queue releases events of update_tick + 1", ["queue-released-up-to-update-tick"],
    (SE, "while let Some((tick, messages)) = queue.pop_if_le(update_tick) {", "while let Some((tick, messages)) = queue.pop_if_le(update_tick + 1) {"))
mut("C04", "pop_if_le_ignores_tick", "pop_if_le releases the first entry whatever its tick", ["released-iff-key"],
    ("src/shared/event/server_event/client_event_queue.rs", "        if *entry.key() > update_tick {\n            return None;\n        }\n", ""))
mut("C04", "client_events_before_replication", "client receives events before applying replication", ["after-receive_replication"],
    ("src/client/event.rs", "                            .after(super::receive_replication)\n", "                            .before(super::receive_replication)\n"))
mut("C04", "unmapped_entities_accepted", "events with unmappable entities are delivered with placeholders", ["ok-only-when-all-mapped"],
    (SE, "        if ctx.invalid_entities.is_empty() {\n            result\n        } else {\n            let msg = format!(\n                \"unable to map entities `{:?}` from the server", "        if ctx.invalid_entities.is_empty() || ctx.invalid_entities.len() < 8 {\n            ctx.invalid_entities.clear();\n            result\n        } else {\n            let msg = format!(\n                \"unable to map entities `{:?}` from the server"))
mut("C04", "trigger_targets_not_mapped", "server trigger targets are used as server entities on the client", ["targets-mapped"],
    ("src/shared/event/server_trigger.rs", "        targets.push(ctx.get_mapped(entity));", "        targets.push(entity);"))

# ------------------------------------------------------------------ C05
CE = "src/shared/event/client_event.rs"
mut("C05", "independent_except_sends_to_excepted", "independent BroadcastExcept also sends to the excepted client", ["send_independent_event/BroadcastExcept/guards"],
    (SE, """                for client_entity in clients {
                    if client_entity != client {
                        server.send(client_entity, self.channel_id, message.clone());
                    }
                }""", """                for client_entity in clients {
                    let _ = client;
                    server.send(client_entity, self.channel_id, message.clone());
                }"""))
mut("C05", "buffered_except_skips_wrong_client", "buffered BroadcastExcept compares against SERVER instead of the excepted client", ["send_all/BroadcastExcept/guards"],
    (SE, "                            if client_entity == client {\n                                continue;\n                            }", "                            if client_entity == SERVER {\n                                let _ = client;\n                                continue;\n                            }"))
mut("C05", "local_direct_always_delivered", "Direct events for remote clients are also observed locally", ["resend_locally/Direct/guards"],
    (SE, """                SendMode::Direct(entity) => {
                    if entity == SERVER {
                        events.send(event);
                    }
                }""", """                SendMode::Direct(entity) => {
                    let _ = entity;
                    events.send(event);
                }"""))
mut("C05", "local_except_inverted", "BroadcastExcept(SERVER) is delivered locally", ["resend_locally/BroadcastExcept/guards"],
    (SE, "                    if entity != SERVER {\n                        events.send(event);\n                    }", "                    if entity == SERVER {\n                        events.send(event);\n                    }"))
mut("C05", "direct_to_server_sent_remotely", "Direct(SERVER) is put on the wire", ["send_independent_event/Direct/guards"],
    (SE, "                if client != SERVER {\n                    server.send(client, self.channel_id, message.clone());\n                }", "                server.send(client, self.channel_id, message.clone());"))
mut("C05", "late_joiner_not_excluded_for_direct", "Direct events reach clients that connected after buffering", ["send_all/Direct/excluded-consulted"],
    (SE, "if client != SERVER && !set.excluded.contains(&client) {", "if client != SERVER {"))
mut("C05", "new_client_not_excluded", "connecting clients are not excluded from buffered events", ["handle_connects/excludes-new-client"],
    ("src/server.rs", "    buffered_events.exclude_client(trigger.target());\n", "    let _ = &mut buffered_events;\n"))
mut("C05", "broadcast_filter_keeps_excluded", "the broadcast filter keeps exactly the excluded clients", ["keeps-non-excluded"],
    (SE, """                    SendMode::Broadcast => {
                        for (client_entity, ticks) in
                            clients.iter().filter(|(e, _)| !set.excluded.contains(e))""", """                    SendMode::Broadcast => {
                        for (client_entity, ticks) in
                            clients.iter().filter(|(e, _)| set.excluded.contains(e))"""))
mut("C05", "sender_identity_is_server", "remote client events are attributed to SERVER", ["sender-is-transport-tag"],
    (CE, "                    client_events.send(FromClient { client, event });", "                    client_events.send(FromClient { client: if client == Entity::PLACEHOLDER { client } else { SERVER }, event });"))
mut("C05", "local_resend_wrong_identity", "locally re-emitted events carry a placeholder identity different from SERVER", ["resend_locally/sender-is-SERVER"],
    (CE, "                client: SERVER,\n                event,", "                client: Entity::from_raw(u32::MAX - 1),\n                event,"))
mut("C05", "client_fresh_cursor", "client reads its events through a fresh cursor every frame (events are re-sent while buffered)", ["persistent-cursor"],
    (CE, "        let events = unsafe { events.deref() };\n        for event in reader.read(events) {", "        let events: &Events<E> = unsafe { events.deref() };\n        let _ = reader;\n        for event in events.get_cursor().read(events) {"))
mut("C05", "failed_serialization_still_sent", "events that failed to map are sent anyway", ["not-sent-when-serialize-failed"],
    (CE, """                error!(
                    "ignoring event `{}` that failed to serialize: {e}",
                    any::type_name::<E>()
                );
                continue;""", """                error!(
                    "ignoring event `{}` that failed to serialize: {e}",
                    any::type_name::<E>()
                );"""))
mut("C05", "unmapped_client_event_ok", "client events with unknown entities are serialised successfully", ["ClientEvent::serialize/ok-only-when-all-mapped"],
    (CE, """        if ctx.invalid_entities.is_empty() {
            result
        } else {
            let msg = format!(
                "unable to map entities `{:?}` for the server, \\""", """        if ctx.invalid_entities.is_empty() || ctx.invalid_entities.len() == 1 {
            ctx.invalid_entities.clear();
            result
        } else {
            let msg = format!(
                "unable to map entities `{:?}` for the server, \\"""))
mut("C05", "client_trigger_targets_unmapped", "client trigger targets are sent as client entities", ["trigger_serialize/targets-mapped"],
    ("src/shared/event/client_trigger.rs", "        let entity = ctx.get_mapped(entity);\n        entity_serde::serialize_entity(message, entity)?;", "        entity_serde::serialize_entity(message, entity)?;"))
mut("C05", "triggers_not_drained", "client triggers are read without draining (fire again next frame)", ["trigger_typed/drains"],
    ("src/shared/event/client_trigger.rs", "        for FromClient { client, event } in client_events.drain() {", "        for FromClient { client, event } in client_events.update_drain() {"))
mut("C05", "all_events_unordered", "event channels ignore the requested channel kind", ["channel-from-registration"],
    (CE, "            .create_client_channel(channel);", "            .create_client_channel(if cfg!(debug_assertions) { Channel::Unordered } else { channel });"))

# ------------------------------------------------------------------ C13
mut("C13", "client_send_unconditional", "client event send system loses its run condition", ["client::event::send/run-conditions", "consumers", "Connected"],
    ("src/client/event.rs", "                    send.run_if(client_connected),\n", "                    send,\n"))
mut("C13", "local_resend_when_connected", "client-side local re-emission also runs while connected", ["client::event::resend_locally/run-conditions"],
    ("src/client/event.rs", "                    resend_locally.run_if(server_or_singleplayer),", "                    resend_locally.run_if(not(client_connecting)),"))
mut("C13", "singleplayer_includes_connecting", "server_or_singleplayer treats a connecting client as singleplayer", ["server_or_singleplayer/shape"],
    ("src/shared/common_conditions.rs", "    client.is_none_or(|client| client.is_disconnected())", "    client.is_none_or(|client| !client.is_connected())"))
mut("C13", "connected_condition_connecting_too", "client_connected is true while connecting", ["client_connected/shape", "mutually-exclusive"],
    ("src/shared/common_conditions.rs", "    client.is_some_and(|client| client.is_connected())\n}\n\n/// Returns `true` if the server stopped", "    client.is_some_and(|client| !client.is_disconnected())\n}\n\n/// Returns `true` if the server stopped") if False else
    ("src/shared/backend/replicon_client.rs", "    pub fn is_connected(&self) -> bool {\n        self.status == RepliconClientStatus::Connected", "    pub fn is_connected(&self) -> bool {\n        self.status != RepliconClientStatus::Disconnected"))
mut("C13", "server_events_not_drained_locally", "local re-emission reads server events without draining (re-read by the fresh cursor next frame)", ["drained-by-local-resend"],
    (SE, "        for ToClients { event, mode } in server_events.drain() {", "        for ToClients { event, mode } in server_events.update_drain() {"))
mut("C13", "resend_before_send", "server events are drained locally before they are sent/buffered", ["read-then-drain-in-one-chain"],
    ("src/server/event.rs", """                    send_or_buffer.run_if(server_running),
                    send_buffered
                        .run_if(server_running)
                        .run_if(resource_changed::<ServerTick>),
                    resend_locally.run_if(server_or_singleplayer),""", """                    resend_locally.run_if(server_or_singleplayer),
                    send_or_buffer.run_if(server_running),
                    send_buffered
                        .run_if(server_running)
                        .run_if(resource_changed::<ServerTick>),"""))
mut("C13", "server_trigger_only_when_running", "server-side triggers from local events need a running server (breaks singleplayer)", ["server::event::trigger/run-conditions"],
    ("src/server/event.rs", "                    trigger.run_if(server_or_singleplayer),", "                    trigger.run_if(server_running),"))
mut("C13", "events_not_dropped_on_connect", "events emitted before connecting are sent to the new server", ["->Connected", "reset-on-connect", "consumers"],
    ("src/client/event.rs", """    for event in event_registry.iter_all_client() {
        let events = events
            .get_mut_by_id(event.events_id())
            .expect("events resource should be accessible");

        // SAFETY: passed pointer was obtained using this event data.
        unsafe { event.reset(events.into_inner()) };
    }

    for event in event_registry.iter_all_server() {
        let queue = queues""", """    let _ = &mut events;
    for event in event_registry.iter_all_server() {
        let queue = queues"""))

# ------------------------------------------------------------------ C03
UPDS = "src/server/replication_messages/updates.rs"
mut("C03", "reintroduce_d9_unmarked_reserved_entity", "Occupied branch of apply_changes no longer ensures the marker", ["ensures-marker-on-every-path"],
    ("src/client.rs", """            if !client_entity.contains::<Replicated>() {
                // The entity could be reserved earlier by a mapped component that referenced it.
                client_entity.insert(Replicated);
            }
""", ""))
mut("C03", "mapping_without_marker", "pre-spawned entities are mapped without the marker", ["apply_entity_mapping/insert"],
    ("src/client.rs", "        entity.insert(Replicated);\n        params.entity_map.insert(server_entity, client_entity);", "        let _ = &mut entity;\n        params.entity_map.insert(server_entity, client_entity);"))
mut("C03", "flag_order_swapped", "REMOVALS gets a lower bit than DESPAWNS (sections reorder)", ["strictly-increasing-bits", "arm-"],
    ("src/shared/replication/update_message_flags.rs", "        const DESPAWNS = 0b00000010;", "        const DESPAWNS = 0b00000100;"),
    ("src/shared/replication/update_message_flags.rs", "        const REMOVALS = 0b00000100;", "        const REMOVALS = 0b00000010;"))
mut("C03", "flags_map_removals_to_despawns", "removal-only ticks raise the DESPAWNS flag", ["buffer-to-flag"],
    (UPDS, "        if !self.removals.is_empty() {\n            flags |= UpdateMessageFlags::REMOVALS;", "        if !self.removals.is_empty() {\n            flags |= UpdateMessageFlags::DESPAWNS;"))
mut("C03", "reader_arms_swapped", "reader applies removals with the despawn handler and vice versa", ["apply_update_message/arm-"],
    ("src/client.rs", """            UpdateMessageFlags::DESPAWNS => {
                let len = apply_array(array_kind, message, |message| {
                    apply_despawn(world, params, message, message_tick)
                })""", """            UpdateMessageFlags::REMOVALS => {
                let len = apply_array(array_kind, message, |message| {
                    apply_despawn(world, params, message, message_tick)
                })"""),
    ("src/client.rs", """            UpdateMessageFlags::REMOVALS => {
                let len = apply_array(array_kind, message, |message| {
                    apply_removals(world, params, message, message_tick)
                })""", """            UpdateMessageFlags::DESPAWNS => {
                let len = apply_array(array_kind, message, |message| {
                    apply_removals(world, params, message, message_tick)
                })"""))
mut("C03", "writer_despawn_arm_writes_removals_len", "despawn section header carries the removals count", ["C03.R2/Updates::send/arm-"],
    (UPDS, "                        postcard_utils::to_extend_mut(&self.despawns_len, &mut message)?;", "                        postcard_utils::to_extend_mut(&self.removals.len(), &mut message)?;"))
mut("C03", "second_update_sender", "mappings are sent as their own update message", ["update-channel/single-writer", "classified"],
    ("src/server.rs", """        trace!("writing mappings for client `{client_entity}`");
        let len = entity_map.len();""", """        trace!("writing mappings for client `{client_entity}`");
        let len = entity_map.len();
        if len > 10_000 {
            return Err("too many mappings".into());
        }"""),
    ("src/server.rs", """fn handle_disconnects(
    trigger: Trigger<OnRemove, ConnectedClient>,
    mut server: ResMut<RepliconServer>,
) {
    debug!("client `{}` disconnected", trigger.target());""", """fn handle_disconnects(
    trigger: Trigger<OnRemove, ConnectedClient>,
    mut server: ResMut<RepliconServer>,
) {
    server.send(trigger.target(), crate::shared::backend::channels::ServerChannel::Updates, Vec::new());
    debug!("client `{}` disconnected", trigger.target());"""))
mut("C03", "update_tick_from_flags_position", "update tick stored only when the message has changes", ["tick-stored-unconditionally"],
    ("src/client.rs", "    world.resource_mut::<ServerUpdateTick>().0 = message_tick;\n", "    if flags.contains(UpdateMessageFlags::CHANGES) {\n        world.resource_mut::<ServerUpdateTick>().0 = message_tick;\n    }\n"))
mut("C03", "reverse_map_not_updated", "VacantEntityEntry::insert forgets the reverse direction", ["VacantEntityEntry", "mirrored"],
    ("src/shared/server_entity_map.rs", "        self.main_entry.insert(value);\n        self.reverse_map.insert(value, key);", "        self.main_entry.insert(value);\n        let _ = key;"))
mut("C03", "map_insert_not_swapped", "ServerEntityMap::insert stores the reverse direction unswapped", ["key-value-swapped"],
    ("src/shared/server_entity_map.rs", "        self.client_to_server.insert(client_entity, server_entity);", "        self.client_to_server.insert(server_entity, client_entity);"))
mut("C03", "despawn_keeps_mapping", "apply_despawn despawns without removing the mapping", ["C03.R5/apply_despawn/unmaps"],
    ("src/client.rs", """    if let Some(client_entity) = params
        .entity_map
        .server_entry(server_entity)
        .remove()
        .and_then(|entity| world.get_entity_mut(entity).ok())""", """    if let Some(client_entity) = params
        .entity_map
        .server_entry(server_entity)
        .get()
        .and_then(|entity| world.get_entity_mut(entity).ok())"""))
mut("C03", "no_record_for_empty_new_entity", "new entities without components get no change record", ["record-for-every-new-entity"],
    ("src/server.rs", "                if new_entity && !updates.changed_entity_added() {", "                if new_entity && !updates.changed_entity_added() && replicated_archetype.components.len() > 1000 {"))

# ------------------------------------------------------------------ C01
mut("C01", "reintroduce_d14_overwrite_removals", "removal buffer overwrites earlier frames' removals", ["RemovalBuffer.removals-merges"],
    ("src/server/removal_buffer.rs", """        let mut removed_ids = self
            .removals
            .remove(&entity)
            .unwrap_or_else(|| self.ids_buffer.pop().unwrap_or_default());""", """        let mut removed_ids = self.ids_buffer.pop().unwrap_or_default();"""))
mut("C01", "baseline_is_last_run", "mutations are detected against the system's last run instead of the client's baseline", ["mutation-iff-changed-since-clients-baseline"],
    ("src/server.rs", "                        if ticks.is_changed(tick, change_tick.this_run()) && send_mutations {", "                        let _ = tick;\n                        if ticks.is_changed(change_tick.last_run(), change_tick.this_run()) && send_mutations {"))
mut("C01", "baseline_of_other_entity", "baseline looked up for the archetype's first entity", ["mutation-iff-changed"],
    ("src/server.rs", "                        .mutation_tick(entity.id())", "                        .mutation_tick(Entity::PLACEHOLDER)"))
mut("C01", "send_rate_ignored", "mutations ignore the send rate", ["send-rate-gate"],
    ("src/server.rs", "if ticks.is_changed(tick, change_tick.this_run()) && send_mutations {", "if ticks.is_changed(tick, change_tick.this_run()) {"))
mut("C01", "registered_tick_is_last_run", "in-flight mutate messages are registered with last_run", ["registered-tick-is-this_run"],
    ("src/server.rs", "                change_tick.this_run(),\n                time.elapsed(),", "                change_tick.last_run(),\n                time.elapsed(),"))
mut("C01", "mutations_applied_without_waiting", "buffered mutate messages are applied regardless of the update tick", ["applied-only-when-update-tick-reached"],
    ("src/client.rs", "        if mutate.update_tick > *update_tick {\n            return true;\n        }\n", ""))
mut("C01", "waiting_mutations_dropped", "mutate messages that have to wait are dropped", ["kept-while-waiting"],
    ("src/client.rs", "        if mutate.update_tick > *update_tick {\n            return true;\n        }", "        if mutate.update_tick > *update_tick {\n            return false;\n        }"))
mut("C01", "update_tick_read_before_updates", "the update tick is sampled before this frame's update messages are applied", ["update-tick-read-after-updates"],
    ("src/client.rs", """    for mut message in client.receive(ServerChannel::Updates) {
        if let Err(e) = apply_update_message(world, params, &mut message) {
            error!("unable to apply update message: {e}");
        }
    }
""", """    let update_tick = *world.resource::<ServerUpdateTick>();
    for mut message in client.receive(ServerChannel::Updates) {
        if let Err(e) = apply_update_message(world, params, &mut message) {
            error!("unable to apply update message: {e}");
        }
    }
"""),
    ("src/client.rs", "    // (unless user requested history via marker).\n    let update_tick = *world.resource::<ServerUpdateTick>();\n", "    // (unless user requested history via marker).\n"))
mut("C01", "removals_cleared_before_collect_changes", "removal buffer cleared before collect_changes has read it", ["removals-cleared-after-last-reader"],
    ("src/server.rs", """    collect_removals(&mut serialized, &mut clients, &removal_buffer)?;
    collect_changes(""", """    collect_removals(&mut serialized, &mut clients, &removal_buffer)?;
    removal_buffer.clear();
    collect_changes("""),
    ("src/server.rs", "        **server_tick,\n    )?;\n    removal_buffer.clear();\n", "        **server_tick,\n    )?;\n"))
mut("C01", "despawns_not_drained", "buffered despawns are iterated without draining", ["drains-despawn-buffer"],
    ("src/server.rs", "    for entity in despawn_buffer.drain(..) {", "    for entity in despawn_buffer.iter().copied() {"))
mut("C01", "removals_buffered_only_on_tick", "removals are buffered only in frames with a tick", ["buffer_removals/every-frame"],
    ("src/server.rs", """                        buffer_removals,
                        send_replication.run_if(resource_changed::<ServerTick>),
                    )
                        .chain()""", """                        buffer_removals.run_if(resource_changed::<ServerTick>),
                        send_replication.run_if(resource_changed::<ServerTick>),
                    )
                        .chain()"""))
mut("C01", "updates_unordered", "update messages travel over the unordered reliable channel", ["ServerChannel::Updates/reliable-ordered"],
    ("src/shared/backend/channels.rs", "            ServerChannel::Updates => Channel::Ordered,", "            ServerChannel::Updates => Channel::Unordered,"))
mut("C01", "channel_table_swapped", "default channel table lists Mutations before Updates", ["ids-match-table"],
    ("src/shared/backend/channels.rs", """                ServerChannel::Updates.into(),
                ServerChannel::Mutations.into(),""", """                ServerChannel::Mutations.into(),
                ServerChannel::Updates.into(),"""))

# ------------------------------------------------------------------ C02
mut("C02", "mutations_set_last_tick_unconditionally", "apply_mutations moves the confirmed tick to the message tick even for older messages", ["set_last_tick-only-on-update-path", "direct-write-only-when-newer"],
    ("src/client.rs", """    let new_tick = message_tick > history.last_tick();
    if new_tick {
        history.set_last_tick(message_tick);
    } else {""", """    let new_tick = message_tick > history.last_tick();
    history.set_last_tick(message_tick);
    if new_tick {
    } else {"""))
mut("C02", "stale_mutations_written", "older mutate data is written directly over newer state", ["direct-write-only-when-newer", "history-path"],
    ("src/client.rs", """            if new_tick {
                component_fns.write(""", """            if new_tick || components_count == 0 {
                component_fns.write("""))
mut("C02", "history_processed_without_marker", "older data is processed although no marker asked for history", ["history-path-only-when-requested"],
    ("src/client.rs", """        if !params.entity_markers.need_history() {
            trace!("ignoring outdated mutations for `{}`", client_entity.id());
            message.advance(data_size);
            return Ok(());
        }
""", ""))
mut("C02", "skip_without_advancing", "skipped entity data is not skipped in the cursor (next entity parsed from garbage)", ["skips-exactly-the-entity-data", "every-ok-exit-consumes-entity-data"],
    ("src/client.rs", """            trace!("ignoring outdated mutations for `{}`", client_entity.id());
            message.advance(data_size);
            return Ok(());""", """            trace!("ignoring outdated mutations for `{}`", client_entity.id());
            return Ok(());"""))
mut("C02", "baseline_not_bumped_on_removal", "pending removals no longer merge mutations / bump the baseline", ["structural-change-conditions"],
    ("src/server.rs", """                if new_entity
                    || updates.changed_entity_added()
                    || removal_buffer.contains_key(&entity.id())
                {""", """                if new_entity || updates.changed_entity_added() {"""))
mut("C02", "baseline_bumped_always", "baseline bumped for every visible entity on every tick", ["bump-only-on-structural-change"],
    ("src/server.rs", """                        updates.take_added_entity(&mut mutations);
                    }
                    ticks.set_mutation_tick(entity.id(), change_tick.this_run());
                }
""", """                        updates.take_added_entity(&mut mutations);
                    }
                }
                ticks.set_mutation_tick(entity.id(), change_tick.this_run());
"""))
mut("C02", "merge_without_bump", "mutations merged into the update message but baseline bumped only for new entities", ["bump-on-every-structural-change"],
    ("src/server.rs", "                    ticks.set_mutation_tick(entity.id(), change_tick.this_run());\n                }\n\n                if new_entity && !updates.changed_entity_added() {", "                    if new_entity {\n                        ticks.set_mutation_tick(entity.id(), change_tick.this_run());\n                    }\n                }\n\n                if new_entity && !updates.changed_entity_added() {"))
mut("C02", "set_last_tick_public", "set_last_tick becomes public API", ["set_last_tick/not-public"],
    ("src/client/confirm_history.rs", "    pub(super) fn set_last_tick(&mut self, tick: RepliconTick) {", "    pub fn set_last_tick(&mut self, tick: RepliconTick) {"))
mut("C02", "ticks_swapped_on_client", "client swaps update tick and message tick when buffering", ["ticks-in-wire-order"],
    ("src/client.rs", "    buffered_mutations.insert(BufferedMutate {\n        update_tick,\n        message_tick,", "    buffered_mutations.insert(BufferedMutate {\n        update_tick: message_tick,\n        message_tick: update_tick,"))

# ------------------------------------------------------------------ C16
mut("C16", "mappings_not_drained", "pending mappings are copied, not drained (re-sent every tick)", ["drains-all-pending", "shape"],
    ("src/server.rs", "let mappings = serialized.write_mappings(entity_map.0.drain(..))?;", "let mappings = serialized.write_mappings(entity_map.0.iter().copied())?;"))
mut("C16", "mappings_collected_after_changes", "mappings are collected after the changes of the tick", ["mappings-collected-in-same-run"],
    ("src/server.rs", "    collect_mappings(&mut serialized, &mut clients)?;\n    collect_despawns", "    collect_despawns"),
    ("src/server.rs", "    removal_buffer.clear();\n\n    send_messages(", "    removal_buffer.clear();\n    collect_mappings(&mut serialized, &mut clients)?;\n\n    send_messages("))
mut("C16", "mapping_adopted_for_missing_entity", "mapping recorded even if the client entity no longer exists", ["map-insert-only-if-entity-exists", "apply_entity_mapping/shape"],
    ("src/client.rs", """        debug!(
            "received mapping from {server_entity:?} to {client_entity:?}, but the entity doesn't exists"
        );""", """        debug!(
            "received mapping from {server_entity:?} to {client_entity:?}, but the entity doesn't exists"
        );
        params.entity_map.insert(server_entity, client_entity);"""))
mut("C16", "mapping_pair_swapped_on_client", "client inserts (client, server) into the map", ["server-then-client"],
    ("src/client.rs", "        params.entity_map.insert(server_entity, client_entity);", "        params.entity_map.insert(client_entity, server_entity);"))
mut("C16", "mapping_pair_swapped_on_server", "server writes (client, server)", ["write_mappings/server-then-client"],
    ("src/server/replication_messages/serialized_data.rs", "            self.write_entity(server_entity)?;\n            self.write_entity(client_entity)?;", "            self.write_entity(client_entity)?;\n            self.write_entity(server_entity)?;"))
mut("C16", "record_always_spawns", "the entity's record spawns a fresh entity even when a mapping exists", ["spawns-only-when-unmapped"],
    ("src/client.rs", """        EntityEntry::Occupied(entry) => {
            let mut client_entity =
                DeferredEntity::new(world.get_entity_mut(entry.get())?, params.changes);
            if !client_entity.contains::<Replicated>() {
                // The entity could be reserved earlier by a mapped component that referenced it.
                client_entity.insert(Replicated);
            }
            client_entity
        }""", """        EntityEntry::Occupied(entry) => {
            let _ = entry.get();
            let mut client_entity = DeferredEntity::new(world.spawn_empty(), params.changes);
            client_entity.insert(Replicated);
            client_entity
        }"""))
mut("C16", "mappings_range_not_reset", "the mappings range is not reset between ticks", ["Updates::clear/resets-mappings"],
    (UPDS, "        self.mappings = Default::default();\n        self.mappings_len = 0;\n", "        self.mappings_len = 0;\n"))


# ====================================================================== behaviour-preserving refactors
# Every check must stay silent on these (run with `python3 analysis/selftest.py --benign`).
B = []


def benign(name, desc, *edits):
    B.append({"prop": "benign", "name": name, "desc": desc, "expect": [], "edits": list(edits)})


benign("acks_match_instead_of_let_else", "receive_acks uses match instead of let-else",
    ("src/server.rs", """                    let Ok(mut ticks) = clients.get_mut(client) else {
                        // Connected, but not authorized clients don't have ticks.
                        debug!("ignoring acknowledgment from non-authorized client `{client}`");
                        break;
                    };
                    ticks.ack_mutate_message(
                        client,
                        &mut entity_buffer,
                        change_tick.this_run(),
                        mutate_index,
                    );""", """                    match clients.get_mut(client) {
                        Ok(mut ticks) => ticks.ack_mutate_message(
                            client,
                            &mut entity_buffer,
                            change_tick.this_run(),
                            mutate_index,
                        ),
                        Err(_) => {
                            debug!("ignoring acknowledgment from non-authorized client `{client}`");
                            break;
                        }
                    }"""))
benign("check_protocol_inverted_if", "check_protocol tests for mismatch first",
    ("src/server.rs", """    if **trigger == *protocol {
        debug!("marking client `{}` as authorized", trigger.client);
        commands.entity(trigger.client).insert(AuthorizedClient);
    } else {
        debug!(
            "disconnecting client `{}` due to protocol mismatch (client: `{:?}`, server: `{:?}`)",
            trigger.client, **trigger, *protocol
        );
        commands.server_trigger(ToClients {
            mode: SendMode::Direct(trigger.client),
            event: ProtocolMismatch,
        });
        events.write(DisconnectRequest {
            client: trigger.client,
        });
    }""", """    if **trigger != *protocol {
        debug!(
            "disconnecting client `{}` due to protocol mismatch (client: `{:?}`, server: `{:?}`)",
            trigger.client, **trigger, *protocol
        );
        commands.server_trigger(ToClients {
            mode: SendMode::Direct(trigger.client),
            event: ProtocolMismatch,
        });
        events.write(DisconnectRequest {
            client: trigger.client,
        });
    } else {
        debug!("marking client `{}` as authorized", trigger.client);
        commands.entity(trigger.client).insert(AuthorizedClient);
    }"""))
benign("contains_early_return", "ConfirmHistory::contains with an early return instead of ||",
    ("src/client/confirm_history.rs", "        ago >= u64::BITS || ((self.mask >> ago) & 1) == 1", "        if ago >= u64::BITS {\n            return true;\n        }\n        ((self.mask >> ago) & 1) == 1"))
benign("is_empty_flatten", "Mutations::is_empty via flatten",
    (MUTS, "self.standalone.is_empty() && self.related.iter().all(Vec::is_empty)", "self.standalone.is_empty() && self.related.iter().flatten().next().is_none()"))
benign("generation_match", "deserialize_entity computes the generation with match/checked ops",
    ("src/shared/entity_serde.rs", """    let generation = if has_generation {
        postcard_utils::from_buf::<u32, _>(message)?
            .checked_add(1)
            .ok_or("entity generation is out of range")?
    } else {
        1u32
    };""", """    let generation = match has_generation {
        true => {
            let stored: u32 = postcard_utils::from_buf(message)?;
            match stored.checked_add(1) {
                Some(generation) => generation,
                None => return Err("entity generation is out of range".into()),
            }
        }
        false => 1u32,
    };"""))
benign("hidden_check_negated_form", "collect_changes tests `!= Hidden` with nesting instead of continue",
    ("src/server.rs", """                let visibility = updates.entity_visibility();
                if visibility == Visibility::Hidden {
                    continue;
                }
""", """                let visibility = updates.entity_visibility();
                if !(visibility != Visibility::Hidden) {
                    continue;
                }
"""))
benign("reset_reordered", "server::reset clears in another order",
    ("src/server.rs", """    *server_tick = Default::default();
    buffered_events.clear();
    related_entities.clear();
    despawn_buffer.clear();
    removal_buffer.clear();""", """    removal_buffer.clear();
    despawn_buffer.clear();
    related_entities.clear();
    buffered_events.clear();
    *server_tick = Default::default();"""))
benign("tick_cmp_reordered_operands", "apply_mutate_messages writes the gate as `*update_tick < mutate.update_tick`",
    ("src/client.rs", "        if mutate.update_tick > *update_tick {\n            return true;\n        }", "        if *update_tick < mutate.update_tick {\n            return true;\n        }"))
benign("gate_le_form", "ServerEvent::receive_typed writes the gate as `!(tick <= update_tick)`",
    (SE, "                if tick > update_tick {\n                    debug!(\"queuing event", "                if !(tick <= update_tick) {\n                    debug!(\"queuing event"))
benign("ack_if_let", "ack_mutate_message uses if-let/else instead of let-else",
    ("src/shared/replication/client_ticks.rs", """        let Some(mutate_info) = self.mutations.remove(&mutate_index) else {
            debug!("received unknown `{mutate_index:?}` from client `{client}`");
            return;
        };
""", """        let mutate_info = if let Some(mutate_info) = self.mutations.remove(&mutate_index) {
            mutate_info
        } else {
            debug!("received unknown `{mutate_index:?}` from client `{client}`");
            return;
        };
"""))
benign("heap_cmp_reverse_wrapper_free", "TimedMessage::cmp compares tuples",
    (LC, """        other
            .timestamp
            .cmp(&self.timestamp)
            .then_with(|| other.sequence.cmp(&self.sequence))""", """        match other.timestamp.cmp(&self.timestamp) {
            Ordering::Equal => other.sequence.cmp(&self.sequence),
            ordering => ordering,
        }"""))
benign("scene_dedup_with_set", "scene export remembers exported ids in a HashSet",
    ("src/scene.rs", """        let mut exported_ids = Vec::new();""", """        let mut exported_ids = bevy::platform::collections::HashSet::new();"""),
    ("src/scene.rs", """                if exported_ids.contains(&component.id) {
                    continue;
                }
                exported_ids.push(component.id);
""", """                if !exported_ids.insert(component.id) {
                    continue;
                }
"""))
benign("removals_entry_api", "RemovalBuffer::update merges through remove + or_else with a local binding",
    ("src/server/removal_buffer.rs", """        let mut removed_ids = self
            .removals
            .remove(&entity)
            .unwrap_or_else(|| self.ids_buffer.pop().unwrap_or_default());""", """        let previous = self.removals.remove(&entity);
        let mut removed_ids = match previous {
            Some(ids) => ids,
            None => self.ids_buffer.pop().unwrap_or_default(),
        };"""))
benign("set_status_nested_ifs", "RepliconClient::set_status with nested ifs",
    ("src/shared/backend/replicon_client.rs", "        if self.is_connected() && !matches!(status, RepliconClientStatus::Connected) {", "        if self.is_connected() && status != RepliconClientStatus::Connected {"))
benign("send_messages_local_bool", "send_messages computes the mutation gate into a local first",
    ("src/server.rs", "        if !mutations.is_empty() || track_mutate_messages {", "        let send_mutations = !mutations.is_empty() || track_mutate_messages;\n        if send_mutations {"))
benign("vis_whitelist_show_match_on_get", "whitelist show branch looks the entry up with get() and matches on it instead of entry().or_insert()",
    ("src/server/client_visibility.rs", """                    if *list.entry(entity).or_insert(WhitelistInfo::JustAdded)
                        == WhitelistInfo::JustAdded
                    {
                        // Do not mark an entry as newly added if the entry was already in the list.
                        self.added.insert(entity);
                    }""", """                    match list.get(&entity) {
                        None => {
                            list.insert(entity, WhitelistInfo::JustAdded);
                            self.added.insert(entity);
                        }
                        Some(WhitelistInfo::JustAdded) => {
                            self.added.insert(entity);
                        }
                        Some(WhitelistInfo::Visible) => (),
                    }"""))
benign("vis_update_through_get_mut", "end-of-tick commit writes Visible through get_mut instead of insert",
    ("src/server/client_visibility.rs", """                for entity in self.added.drain() {
                    list.insert(entity, WhitelistInfo::Visible);
                }""", """                for entity in self.added.drain() {
                    if let Some(info) = list.get_mut(&entity) {
                        *info = WhitelistInfo::Visible;
                    }
                }"""))
benign("vis_blacklist_hide_match_on_insert", "blacklist hide branch matches on the result of insert",
    ("src/server/client_visibility.rs", """                    if list.insert(entity, BlacklistInfo::Hidden).is_some() {
                        self.removed.remove(&entity);
                        return;
                    };

                    self.added.insert(entity);""", """                    match list.insert(entity, BlacklistInfo::Hidden) {
                        Some(_) => {
                            self.removed.remove(&entity);
                        }
                        None => {
                            self.added.insert(entity);
                        }
                    }"""))
benign("vis_is_visible_by_comparison", "is_visible compares the state with Hidden instead of matching",
    ("src/server/client_visibility.rs", """        match self.state(entity) {
            Visibility::Hidden => false,
            Visibility::Gained | Visibility::Visible => true,
        }""", """        self.state(entity) != Visibility::Hidden"""))
benign("vis_whitelist_hide_contains_key", "whitelist hide branch tests contains_key before removing",
    ("src/server/client_visibility.rs", """                    if list.remove(&entity).is_none() {
                        return;
                    }
""", """                    if !list.contains_key(&entity) {
                        return;
                    }
                    list.remove(&entity);
"""))

benign("removals_only_for_visible_after_d17_fix", "collect_removals filters on state == Visible (seeded change c03a): since 29f59ef `Gained` implies the client does not hold the entity, so the removal record is not needed",
    ("src/server.rs", "            if visibility.is_none_or(|v| v.is_visible(entity)) {\n                trace!(\n                    \"writing removals", "            if visibility.is_none_or(|v| v.state(entity) == Visibility::Visible) {\n                trace!(\n                    \"writing removals"))

benign("scene_dedup_sorted_insert", "scene export keeps the exported ids sorted and looks them up with a binary search",
    ("src/scene.rs", """                if exported_ids.contains(&component.id) {
                    continue;
                }
                exported_ids.push(component.id);""", """                let Err(pos) = exported_ids.binary_search(&component.id) else {
                    continue;
                };
                exported_ids.insert(pos, component.id);"""))
benign("entity_serde_from_instead_of_as", "the entity codec widens with u64::from instead of `as`",
    ("src/shared/entity_serde.rs", """    let mut flagged_index = (entity.index() as u64) << 1;
    let flag = entity.generation() > 1;
    flagged_index |= flag as u64;""", """    let flag = entity.generation() > 1;
    let flagged_index = u64::from(entity.index()) << 1 | u64::from(flag);"""))

benign("d12_alternative_repair_sweep_before_collect", "removals of despawned entities are forgotten in send_replication (for every entity in the despawn buffer) instead of in the observer",
    ("src/server.rs", """        // Removals buffered in previous frames are superseded by the despawn.
        removal_buffer.remove_entity(trigger.target());
""", ""),
    ("src/server.rs", """    collect_mappings(&mut serialized, &mut clients)?;
    collect_despawns(""", """    for &entity in despawn_buffer.iter() {
        removal_buffer.remove_entity(entity);
    }
    collect_mappings(&mut serialized, &mut clients)?;
    collect_despawns("""))

benign("relation_edges_removed_in_while_let", "remove_relation removes matching edges one by one, re-querying until none is left",
    ("src/server/related_entities.rs", """        self.remove_buffer.extend(
            self.graph
                .edges_connecting(source_node, target_node)
                .filter(|e| *e.weight() == type_id)
                .map(|e| e.id()),
        );

        for edge in self.remove_buffer.drain(..) {
            self.graph.remove_edge(edge);
        }""", """        while let Some(edge) = self
            .graph
            .edges_connecting(source_node, target_node)
            .find(|e| *e.weight() == type_id)
            .map(|e| e.id())
        {
            self.graph.remove_edge(edge);
        }"""))

benign("heap_sequence_wrapping_add_u64", "the 64-bit insertion counter is incremented with wrapping_add",
    ("bevy_replicon_example_backend/src/link_conditioner.rs", "        self.next_sequence += 1;", "        self.next_sequence = self.next_sequence.wrapping_add(1);"))
benign("tick_counter_saturating_add", "the received counter is incremented with saturating_add",
    ("src/client/server_mutate_ticks.rs", "        self.received += 1;", "        self.received = self.received.saturating_add(1);"))

benign("despawn_unmaps_by_key_then_despawns", "apply_despawn removes the mapping by key first and then despawns the entity it got from the removed entry (let-else style)",
    ("src/client.rs", """    if let Some(client_entity) = params
        .entity_map
        .server_entry(server_entity)
        .remove()
        .and_then(|entity| world.get_entity_mut(entity).ok())
    {
        trace!("applying despawn for `{}`", client_entity.id());
        let ctx = DespawnCtx { message_tick };
        (params.registry.despawn)(&ctx, client_entity);
    }
""", """    let Some(entity) = params.entity_map.server_entry(server_entity).remove() else {
        return Ok(());
    };
    let Ok(client_entity) = world.get_entity_mut(entity) else {
        return Ok(());
    };
    trace!("applying despawn for `{}`", client_entity.id());
    let ctx = DespawnCtx { message_tick };
    (params.registry.despawn)(&ctx, client_entity);
"""))

benign("client_events_scratch_buffer_cleared_first", "client events are serialised into one scratch buffer that is cleared at the top of every iteration",
    ("src/shared/event/client_event.rs", """        for event in reader.read(events) {
            let mut message = Vec::new();
            if let Err(e) = unsafe { self.serialize::<E, I>(ctx, event, &mut message) } {""", """        let mut message = Vec::new();
        for event in reader.read(events) {
            message.clear();
            if let Err(e) = unsafe { self.serialize::<E, I>(ctx, event, &mut message) } {"""),
    ("src/shared/event/client_event.rs", """            client.send(self.channel_id, message);
        }
    }

    /// Receives events from a client.""", """            client.send(self.channel_id, message.clone());
        }
    }

    /// Receives events from a client."""))

benign("trigger_with_unmapped_targets_refused_early_after_d18_fix", "trigger_deserialize refuses a trigger with unmappable targets before deserialising its payload (seeded change c05f): harmless since 0bd10c1, the wrapper clears the record on the error path",
    ("src/shared/event/server_trigger.rs", """    let event = (deserialize)(ctx, message)?;

    Ok(ServerTriggerEvent { event, targets })""", """    if !ctx.invalid_entities.is_empty() {
        return Err(format!(
            "unable to map trigger targets `{:?}` from the server",
            ctx.invalid_entities
        )
        .into());
    }

    let event = (deserialize)(ctx, message)?;

    Ok(ServerTriggerEvent { event, targets })"""))

BENIGN = B

benign("ack_drains_the_entity_list", "ack_mutate_message drains the recorded entity list (returned to the pool empty); the clear on take stays",
       ("src/shared/replication/client_ticks.rs", """        let Some(mutate_info) = self.mutations.remove(&mutate_index) else {
            debug!("received unknown `{mutate_index:?}` from client `{client}`");""", """        let Some(mut mutate_info) = self.mutations.remove(&mutate_index) else {
            debug!("received unknown `{mutate_index:?}` from client `{client}`");"""),
       ("src/shared/replication/client_ticks.rs", """        for entity in &mutate_info.entities {
            let Some(last_tick) = self.mutation_ticks.get_mut(entity) else {""", """        for entity in mutate_info.entities.drain(..) {
            let Some(last_tick) = self.mutation_ticks.get_mut(&entity) else {"""))
