#!/bin/bash
# usage: mk-target.sh <id>  -> creates a private build directory /tmp/seed-target-<id>
set -e
TG=/tmp/seed-target-$1
rm -rf "$TG"
cp -al /tmp/seed-target "$TG"
rm -rf "$TG/debug/incremental" "$TG/.cargo-lock" "$TG/debug/.cargo-lock"
find "$TG/debug/deps" -maxdepth 1 -type f \( ! -name 'lib*' -o -name 'libbevy_replicon*' \) -delete
find "$TG/debug/.fingerprint" -maxdepth 1 -name 'bevy_replicon*' -exec rm -rf {} +
# de-link the remaining fingerprint files (cargo rewrites them in place)
find "$TG/debug/.fingerprint" -type f | while read f; do cp -p "$f" "$f.tmp" && mv -f "$f.tmp" "$f"; done
echo "$TG ready"
