"""Rule engine: runs a property's rules over the facts, compares violations with the
known-findings file, writes evidence, prints VIOLATION / KNOWN-FINDING lines."""
import importlib
import json
import os
import sys
import time
import traceback

HERE = os.path.dirname(os.path.abspath(__file__))
VERIF = os.path.dirname(HERE)
sys.path.insert(0, HERE)

import extract  # noqa: E402
import facts as factsmod  # noqa: E402

KNOWN_FILE = os.path.join(VERIF, "known_findings.json")
EVIDENCE_DIR = os.environ.get("REPLICON_EVIDENCE_DIR") or os.path.join(VERIF, "evidence")


class AnchorMissing(Exception):
    pass


class Ctx:
    """Collects rule instances for one property on one configuration."""

    def __init__(self, prop, F, config):
        self.prop = prop
        self.F = F
        self.config = config
        self.instances = []  # dicts: rule, key, ok, site, msg, detail
        self.rule = None
        self.notes = []
        self.whitelist_used = set()
        self._ord = {}

    # instance reporting --------------------------------------------------
    def ok(self, key, site="", detail=None):
        self.instances.append({"rule": self.rule, "key": "%s/%s" % (self.rule, key), "ok": True,
                               "site": site, "detail": detail or "", "config": self.config})

    def bad(self, key, site="", msg="", detail=None, kind="violation"):
        self.instances.append({"rule": self.rule, "key": "%s/%s" % (self.rule, key), "ok": False,
                               "site": site, "msg": msg, "detail": detail or "", "kind": kind,
                               "config": self.config})

    def check(self, cond, key, site="", msg="", detail=None):
        if cond:
            self.ok(key, site, detail)
        else:
            self.bad(key, site, msg, detail)
        return cond

    def nth(self, base):
        """Key for the n-th site of one kind (in block order): keys carry no line numbers."""
        k = (self.rule, base)
        self._ord[k] = self._ord.get(k, 0) + 1
        return "%s#%d" % (base, self._ord[k])

    def note(self, text):
        self.notes.append("%s: %s" % (self.rule, text))

    # anchors ---------------------------------------------------------------
    def fn(self, suffix, crate=None):
        r = self.F.find(suffix, crate)
        if len(r) != 1:
            raise AnchorMissing("anchor function `%s` not found uniquely (%d matches)" % (suffix, len(r)))
        return r[0]

    def fns(self, suffix, crate=None, min_count=1):
        r = self.F.find(suffix, crate)
        if len(r) < min_count:
            raise AnchorMissing("anchor function `%s`: %d matches, expected >= %d" % (suffix, len(r), min_count))
        return r

    def adt(self, path):
        a = self.F.adts.get(path)
        if a is None:
            raise AnchorMissing("anchor type `%s` not found" % path)
        return a


def site_of(body, bb=None):
    if bb is None:
        return "%s (%s)" % (body.path, body.span)
    return "%s (%s)" % (body.path, body.blocks[bb].term.get("span", body.span))


def load_known():
    if not os.path.exists(KNOWN_FILE):
        return []
    return json.load(open(KNOWN_FILE))


def run_rules(prop, facts_dir, config="default"):
    """Runs the property's rules over the facts in `facts_dir`; returns (instances, internal_errors)."""
    mod = importlib.import_module("rules." + prop)
    F = factsmod.Facts(facts_dir)
    ctx = Ctx(prop, F, config)
    errs = []
    for (rid, title, fn, floor, applies) in mod.RULES:
        if applies and config not in applies:
            continue
        ctx.rule = rid
        before = len(ctx.instances)
        try:
            fn(ctx)
        except AnchorMissing as e:
            ctx.bad("anchor", "", str(e), kind="anchor-missing")
        except Exception:
            errs.append("%s/%s: %s" % (rid, config, traceback.format_exc()))
            continue
        n = len(ctx.instances) - before
        if n < floor:
            ctx.bad("floor", "", "rule matched %d instance(s), fewer than the %d confirmed by hand" % (n, floor), kind="anchor-missing")
    return ctx.instances, errs


def run_property(prop, tier="quick", explain=None):
    t0 = time.time()
    seed = int(os.environ.get("VERIF_SEED", "0") or 0)
    mod = importlib.import_module("rules." + prop)
    configs = ["default"]
    if tier == "thorough":
        configs = list(getattr(mod, "THOROUGH_CONFIGS", ["default", "all-features", "server-only", "client-only"]))
    all_instances = []
    rule_meta = []
    notes = []
    extract_info = []
    internal_errors = []
    nfns = 0
    for config in configs:
        try:
            d, info = extract.ensure_facts(config)
        except extract.ExtractError as e:
            print("CHECKER-ERROR property=%s extraction failed for config %s: %s" % (prop, config, str(e)[:3000]))
            return 2
        extract_info.append(info)
        F = factsmod.Facts(d)
        nfns = max(nfns, len(F.fns))
        ctx = Ctx(prop, F, config)
        for (rid, title, fn, floor, applies) in mod.RULES:
            if applies and config not in applies:
                continue
            ctx.rule = rid
            before = len(ctx.instances)
            try:
                fn(ctx)
            except AnchorMissing as e:
                ctx.bad("anchor", "", str(e), kind="anchor-missing")
            except Exception:
                internal_errors.append("%s/%s: %s" % (rid, config, traceback.format_exc()))
                continue
            n = len(ctx.instances) - before
            if n < floor:
                ctx.bad("floor", "", "rule matched %d instance(s), fewer than the %d confirmed by hand: "
                        "an anchor of this rule disappeared, the check can no longer vouch for the clause"
                        % (n, floor), kind="anchor-missing")
            if config == configs[0]:
                rule_meta.append({"rule": rid, "title": title, "floor": floor})
        all_instances += ctx.instances
        notes += ctx.notes
    if internal_errors:
        for e in internal_errors:
            print("CHECKER-ERROR property=%s %s" % (prop, e))
        return 2

    # selftest hook (thorough only)
    selftest = None
    if tier == "thorough" and not os.environ.get("VERIF_NO_SELFTEST"):
        try:
            import selftest as st
            selftest = st.run_for_property(prop)
        except Exception:
            print("CHECKER-ERROR property=%s selftest crashed: %s" % (prop, traceback.format_exc()))
            return 2
        if selftest and selftest.get("failed"):
            for f in selftest["failed"]:
                print("CHECKER-ERROR property=%s selftest: %s" % (prop, f))
            return 2

    # de-duplicate violations across configs by key
    known = [k for k in load_known() if k.get("property") == prop]
    known_keys = {k["key"]: k for k in known if k.get("status") == "known"}
    viol = {}
    for inst in all_instances:
        if not inst["ok"]:
            viol.setdefault(inst["key"], inst)
    new_viol = []
    os.makedirs(os.path.join(EVIDENCE_DIR, "violations"), exist_ok=True)
    # clean old violation files of this property
    for fn_ in os.listdir(os.path.join(EVIDENCE_DIR, "violations")):
        if fn_.startswith(prop + "-"):
            os.remove(os.path.join(EVIDENCE_DIR, "violations", fn_))
    seen_known = []
    for key, inst in sorted(viol.items()):
        if key in known_keys:
            print("KNOWN-FINDING: property=%s %s [%s]" % (prop, known_keys[key].get("what", inst.get("msg", "")), key))
            seen_known.append(key)
            continue
        n = len(new_viol) + 1
        path = os.path.join(EVIDENCE_DIR, "violations", "%s-%d.json" % (prop, n))
        json.dump(inst, open(path, "w"), indent=1, default=str)
        new_viol.append((key, inst, path))
    for key, inst, path in new_viol:
        print("VIOLATION property=%s replay=%s" % (prop, path))
        print("  rule=%s kind=%s site=%s\n  %s" % (inst["key"], inst.get("kind"), inst.get("site"), inst.get("msg")))

    # evidence
    oks = [i for i in all_instances if i["ok"]]
    distinct = sorted({i["key"] for i in all_instances})
    samples = []
    per_rule_seen = {}
    for i in all_instances:
        c = per_rule_seen.get(i["rule"], 0)
        if c < 3:
            per_rule_seen[i["rule"]] = c + 1
            samples.append({"rule": i["rule"], "instance": i["key"], "site": i["site"], "verdict": "holds" if i["ok"] else "violated",
                            "facts": str(i.get("detail") or i.get("msg") or "")[:400]})
    per_rule = {}
    for i in all_instances:
        r = per_rule.setdefault(i["rule"], {"instances": 0, "passed": 0})
        r["instances"] += 1
        r["passed"] += 1 if i["ok"] else 0
    ev = {
        "property_id": prop,
        "tier": tier,
        "seed": seed,
        "level": "other",
        "coverage": {
            "explanation": getattr(mod, "EXPLANATION", "") + " Rules: " + "; ".join("%s = %s" % (m["rule"], m["title"]) for m in rule_meta),
            "obligations": len(all_instances),
            "discharged": len(oks),
            "evaluations": len(all_instances),
            "distinct_nontrivial": len(distinct),
            "rule": "one case = one rule instance (a call site, writer, schedule entry, path or sibling member that the rule "
                    "quantifies over in /repo's current MIR); distinct = distinct instance keys (rule/function/callee-or-field); "
                    "every instance is non-trivial in the sense that the rule's verdict depends on the analysed code at that site",
            "samples": samples,
            "per_rule": per_rule,
            "rule_floors": {m["rule"]: m["floor"] for m in rule_meta},
            "configurations": configs,
            "functions_analysed": nfns,
            "extraction": extract_info,
            "checker_cmd": "bin/check %s --tier %s" % (prop, tier),
            "trusted_base": getattr(mod, "TRUSTED_BASE", []) + [
                "rustc nightly front end and MIR construction (facts are read from optimized_mir at mir-opt-level=0)",
                "the driver's JSON rendering of MIR (verif/driver)",
                "dependencies (Bevy, postcard, bytes, std) behave as their documented contracts say",
            ],
            "exhaustive": True,
            "not_decided": getattr(mod, "NOT_DECIDED", ""),
            "notes": notes,
            "known_findings_reported": seen_known,
            "selftest": selftest,
        },
        "assumptions": getattr(mod, "ASSUMPTIONS", []),
        "wall_s": round(time.time() - t0, 2),
        "violations": len(new_viol),
    }
    os.makedirs(EVIDENCE_DIR, exist_ok=True)
    json.dump(ev, open(os.path.join(EVIDENCE_DIR, prop + ".json"), "w"), indent=1, default=str)
    if explain:
        for i in all_instances:
            print(("ok   " if i["ok"] else "BAD  ") + i["key"], "|", i["site"], "|", str(i.get("detail") or i.get("msg"))[:200])
    print("%s: %d rule instances over %d functions, %d passed, %d known finding(s), %d new violation(s) [%s, %.1fs]" % (
        prop, len(all_instances), nfns, len(oks), len(seen_known), len(new_viol), tier, time.time() - t0))
    return 1 if new_viol else 0


def main(argv):
    import argparse
    ap = argparse.ArgumentParser()
    ap.add_argument("prop")
    ap.add_argument("--tier", default=os.environ.get("VERIF_TIER", "quick"))
    ap.add_argument("--explain", action="store_true")
    ap.add_argument("--replay", default=None)
    a = ap.parse_args(argv)
    if a.replay:
        print(open(a.replay).read())
        a.explain = True
    if a.tier not in ("quick", "thorough"):
        a.tier = "quick"
    return run_property(a.prop, a.tier, a.explain)


if __name__ == "__main__":
    sys.exit(main(sys.argv[1:]))
