"""C16 - Pre-spawned client entities are adopted, not duplicated."""
from engine import site_of
from facts import callee_decl, callee_name
from flow import tracer, short, required_outcomes, dep_closure, is_next_switch, next_sources
from schedule import schedule
from rules.C08 import _client_items
import rules.C03 as C03

EXPLANATION = (
    "R1: mappings registered on the server travel with the next update message of that client: collect_mappings drains the client's "
    "ClientEntityMap into the same client's Updates in the same send_replication run, before despawns/removals/changes are collected; "
    "a mappings-only tick still sends (Updates::is_empty consults mappings); the mappings section has the lowest flag bit, so it is "
    "written and applied first (C03.R2). R2: on the client a mapping is adopted (map entry + marker) only if the named client entity "
    "still exists; otherwise nothing is recorded and the entity's own record takes the fresh-spawn branch. R3: pending mappings are "
    "per client (a component required by AuthorizedClient). R4: writer and reader agree on (server entity, client entity) order."
    " R5: the update message (which carries the mappings and bumps the update tick) is built before the mutate messages of the same tick are stamped (C04.R2).")
NOT_DECIDED = "timing histories: that the server registered the mapping no later than the entity's first visibility; interplay with arbitrary neighbouring traffic"
TRUSTED_BASE = C03.TRUSTED_BASE

UPD = "bevy_replicon::server::replication_messages::updates::Updates"
CEM = "bevy_replicon::server::client_entity_map::ClientEntityMap"
MAP = "bevy_replicon::shared::server_entity_map::ServerEntityMap"
REPL = "bevy_replicon::shared::replication::Replicated"


def r1_travel_with_tick(ctx):
    F = ctx.F
    cm = ctx.fn("server::collect_mappings")
    tr = tracer(cm, follow_next=False)
    dr = [(bb, t) for bb, t in cm.calls() if callee_decl(t).endswith("Vec::<T, A>::drain")]
    wm = [(bb, t) for bb, t in cm.calls() if callee_decl(t).endswith("SerializedData::write_mappings")]
    sm = [(bb, t) for bb, t in cm.calls() if callee_decl(t) == UPD + "::set_mappings"]
    ctx.check(len(dr) == 1 and len(wm) == 1 and len(sm) == 1, "collect_mappings/shape", site_of(cm), "%d drain / %d write_mappings / %d set_mappings" % (len(dr), len(wm), len(sm)))
    if not (dr and wm and sm):
        return
    full = any("RangeFull" in a for a in dr[0][1]["callee"]["args"])
    ctx.check(full, "collect_mappings/drains-all-pending", site_of(cm, dr[0][0]), "pending mappings are not drained completely (they would be re-sent or lost)")
    ctx.check(("call", dr[0][0]) in dep_closure(cm, wm[0][1]["args"][1]), "collect_mappings/writes-drained-pairs", site_of(cm, wm[0][0]), "the serialised mappings are not the drained ones")
    ctx.check(("call", wm[0][0]) in dep_closure(cm, sm[0][1]["args"][1]), "collect_mappings/range-into-updates", site_of(cm, sm[0][0]), "the update message does not reference the range just written")
    same = _client_items(cm, dr[0][1]["args"][0]) & _client_items(cm, sm[0][1]["args"][0])
    ctx.check(bool(same), "collect_mappings/same-client", site_of(cm, sm[0][0]), "mappings of one client are put into another client's update message")
    ln = tr.operand(sm[0][1]["args"][2])
    ok = bool(ln) and all(x.kind == "call" and callee_decl(cm.blocks[x.data].term).endswith("::len") and cm.dominates(x.data, dr[0][0]) for x in ln)
    ctx.check(ok, "collect_mappings/count-taken-before-drain", site_of(cm, sm[0][0]), "the mappings count is not the length before draining")
    g = [(c.get("name"), o) for (_, c, o) in required_outcomes(F, cm, sm[0][0]) if c["kind"] == "boolcall"]
    ctx.check(all(n.endswith("::is_empty") and o == {False} for n, o in g) and len(g) <= 1, "collect_mappings/only-skips-empty", site_of(cm, sm[0][0]), "mappings are skipped under %s" % g)
    sr = ctx.fn("server::send_replication")
    order = {}
    for bb, t in sr.calls():
        d = callee_decl(t)
        for n in ("collect_mappings", "collect_despawns", "collect_removals", "collect_changes", "send_messages"):
            if d.endswith("server::" + n):
                order[n] = bb
    ok = all(n in order for n in ("collect_mappings", "collect_changes", "send_messages")) and sr.dominates(order["collect_mappings"], order["collect_changes"]) and sr.dominates(order["collect_mappings"], order["send_messages"])
    ctx.check(ok, "send_replication/mappings-collected-in-same-run", site_of(sr), "mappings are not collected in the run that collects and sends the changes")
    ie = ctx.fn("updates::Updates::is_empty")
    flds = set()
    for bb, t in ie.calls():
        if t["args"]:
            for x in tracer(ie).operand(t["args"][0]):
                flds |= {e[2] for e in x.path if e[0] == "f" and e[3] == UPD}
    ctx.check("mappings" in flds, "Updates::is_empty/mappings-only-tick-is-sent", site_of(ie), "a tick that carries only mappings is considered empty and not sent")
    vals = C03.flag_values(ctx)
    ctx.check(vals.get("MAPPINGS") is not None and all(vals["MAPPINGS"] < v for k, v in vals.items() if k in ("DESPAWNS", "REMOVALS", "CHANGES")), "flags/mappings-first", "",
              "the mappings section is not the first section: %s" % vals, str(vals))
    cl = ctx.fn("updates::Updates::clear")
    touched = set()
    for bb, i, s in cl.statements():
        if s["s"] == "assign" and s["place"]["p"]:
            for e in s["place"]["p"]:
                if isinstance(e, dict) and e.get("adt") == UPD:
                    touched.add(e["name"])
    ctx.check({"mappings", "mappings_len"} <= touched, "Updates::clear/resets-mappings", site_of(cl), "the previous tick's mappings range survives into the next message")


def r2_adoption(ctx):
    F = ctx.F
    am = ctx.fn("client::apply_entity_mapping")
    tr = tracer(am)
    ge = [(bb, t) for bb, t in am.calls() if callee_decl(t).endswith("World::get_entity_mut")]
    ins = [(bb, t) for bb, t in am.calls() if callee_decl(t) == MAP + "::insert"]
    mk = [(bb, t) for bb, t in am.calls() if callee_decl(t).rsplit("::", 1)[-1] == "insert" and any(a == REPL for a in t["callee"].get("args", []))]
    des = [bb for bb in am.rpo if am.blocks[bb].term["t"] == "call" and callee_decl(am.blocks[bb].term).endswith("deserialize_entity")]
    ctx.check(len(ge) == 1 and len(ins) == 1 and len(mk) == 1 and len(des) == 2, "apply_entity_mapping/shape", site_of(am), "%d get_entity_mut / %d map inserts / %d marker inserts / %d decoded entities" % (len(ge), len(ins), len(mk), len(des)))
    if not (ge and ins and mk and len(des) == 2):
        return
    gbb = ge[0][0]
    ctx.check(any(x.kind == "call" and x.data == des[1] for x in tr.operand(ge[0][1]["args"][1])), "apply_entity_mapping/looks-up-client-entity", site_of(am, gbb), "the existence check is not about the client entity named in the mapping (second decoded entity)")
    for name, (bb, t) in (("map-insert", ins[0]), ("marker", mk[0])):
        ok = False
        for (s_, c, o) in required_outcomes(F, am, bb, skip_try=False):
            if c["kind"] == "variant" and o == {"Ok"} and any(x.kind == "call" and x.data == gbb for x in tr.place(c["place"])):
                ok = True
        ctx.check(ok, "apply_entity_mapping/%s-only-if-entity-exists" % name, site_of(am, bb), "the mapping is adopted although the pre-spawned client entity no longer exists (the entity's record would later fail to find it)")
    a1, a2 = ins[0][1]["args"][1], ins[0][1]["args"][2]
    ok = any(x.kind == "call" and x.data == des[0] for x in tr.operand(a1)) and any(x.kind == "call" and x.data == des[1] for x in tr.operand(a2))
    ctx.check(ok, "apply_entity_mapping/server-then-client", site_of(am, ins[0][0]), "the map is given (server, client) from the wrong decoded values")
    recv = dep_closure(am, mk[0][1]["args"][0])
    ctx.check(("call", gbb) in recv, "apply_entity_mapping/marker-on-adopted-entity", site_of(am, mk[0][0]), "the marker is inserted on a different entity than the adopted one")
    # nothing spawned here
    sp = [bb for bb, t in am.calls() if callee_decl(t).rsplit("::", 1)[-1] in ("spawn", "spawn_empty")]
    ctx.check(not sp, "apply_entity_mapping/never-spawns", site_of(am), "apply_entity_mapping spawns entities")
    # the entity's own record: Occupied => existing entity; Vacant => fresh spawn + entry
    ac = ctx.fn("client::apply_changes")
    atr = tracer(ac)
    spawns = [(bb, t) for bb, t in ac.calls() if callee_decl(t).endswith("World::spawn_empty")]
    ok = bool(spawns)
    for bb, t in spawns:
        g = [(c, o) for (_, c, o) in required_outcomes(F, ac, bb) if c["kind"] == "variant"]
        ok = ok and any(o == {"Vacant"} for c, o in g)
    ctx.check(ok, "apply_changes/spawns-only-when-unmapped", site_of(ac), "a fresh client entity is spawned although the server entity is already mapped (duplicate of the pre-spawned entity)")
    se = [(bb, t) for bb, t in ac.calls() if callee_decl(t).endswith("ServerEntityMap::server_entry")]
    des2 = [bb for bb, t in ac.calls() if callee_decl(t).endswith("deserialize_entity")]
    ctx.check(len(se) == 1 and any(x.kind == "call" and x.data in des2 for x in atr.operand(se[0][1]["args"][1])), "apply_changes/entry-of-decoded-entity", site_of(ac), "the map is consulted for a different entity than the record's")


def r3_per_client(ctx):
    F = ctx.F
    S = schedule(F)
    req = [r for r in S.required if r["required"] == CEM]
    ctx.check(len(req) == 1 and req[0]["component"].endswith("AuthorizedClient"), "ClientEntityMap/required-by-AuthorizedClient", "", "%s" % [(short(r["component"])) for r in req])
    comp = [i for i in F.impls if i.get("self") == CEM and i.get("trait") == "bevy_ecs::component::Component"]
    ctx.check(bool(comp), "ClientEntityMap/is-a-component", CEM, "pending mappings are not stored per client entity")
    ins = ctx.fn("client_entity_map::ClientEntityMap::insert")
    tr = tracer(ins)
    ps = [(bb, t) for bb, t in ins.calls() if callee_decl(t).endswith("Vec::<T, A>::push")]
    ok = False
    for bb, t in ps:
        for o in tr.operand(t["args"][1]):
            if o.kind == "stmt":
                rv = ins.blocks[o.data[0]].stmts[o.data[1]]["rvalue"]
                if rv["rv"] == "agg" and rv["kind"] == "tuple":
                    a, b = rv["ops"]
                    ok = all(x.kind == "param" and x.data == 2 for x in tr.operand(a)) and all(x.kind == "param" and x.data == 3 for x in tr.operand(b))
    ctx.check(ok, "ClientEntityMap::insert/stores-(server,client)", site_of(ins), "the pair is stored in another order than (server, client)")
    # every registered pair is queued: the two ids live in different worlds, no relation between them makes a mapping redundant
    if ps:
        skipping = [e for e in ins.exits() if ins.reachable_avoiding(e, (), removed_blocks=tuple(bb for bb, _ in ps))]
        ctx.check(not skipping, "ClientEntityMap::insert/every-pair-is-queued", site_of(ins, ps[0][0]),
                  "a registered mapping can be dropped without being queued (conditions: %s): the client spawns a new entity instead of adopting its pre-spawned one" % (
                      [(c["kind"], c.get("rel") or c.get("name") or "", sorted(map(str, o))) for (_, c, o) in required_outcomes(F, ins, ps[0][0])]))


def r4_pair_order(ctx):
    F = ctx.F
    wm = ctx.fn("serialized_data::SerializedData::write_mappings")
    tr = tracer(wm, follow_next=False)
    we = [bb for bb in wm.rpo if wm.blocks[bb].term["t"] == "call" and callee_decl(wm.blocks[bb].term).endswith("SerializedData::write_entity")]
    ok = len(we) == 2
    if ok:
        idx = []
        for bb in we:
            o = tr.operand(wm.blocks[bb].term["args"][1])
            idx.append(sorted({[e for e in x.path if e[0] == "f"][-1][1] for x in o if [e for e in x.path if e[0] == "f"]}))
        ok = idx == [[0], [1]]
    ctx.check(ok, "write_mappings/server-then-client", site_of(wm), "a mapping pair is not written as (server entity, client entity)")
    ctx.check(ok and all(len(wm.loops_containing(bb)) == 1 for bb in we), "write_mappings/per-pair", site_of(wm), "")


def r20_unconditional_mutators(ctx):
    """Mutators this property relies on always perform their effect (shared table in rules/mutators.py)."""
    import rules.mutators as mutators
    mutators.run_for(ctx, "C16")


def r5_update_tick_before_mutations(ctx):
    """A mutate message must wait for the update message of its tick (which carries the mappings): the client's update tick is bumped,
    and the update message built, before the mutate messages of the same client are stamped (the send_messages part of C04.R2). Stamped
    with the previous tick, a mutate message that overtakes the update message is applied first; a reference to a not yet mapped entity
    then reserves a second client entity for it."""
    import rules.C04 as C04
    before = len(ctx.instances)
    C04.r2_stamping(ctx)
    keep = [i for i in ctx.instances[before:] if "send_messages/" in i["key"]]
    ctx.instances[before:] = keep


RULES = [
    ("C16.R1", "pending mappings are drained into the same client's next update message and travel first", r1_travel_with_tick, 10, ["default", "all-features", "server-only"]),
    ("C16.R2", "adoption only if the pre-spawned entity still exists; the record spawns only when unmapped", r2_adoption, 8, ["default", "all-features", "client-only"]),
    ("C16.R3", "pending mappings are per client and stored as (server, client)", r3_per_client, 3, ["default", "all-features", "server-only"]),
    ("C16.R4", "mapping pairs are written as (server, client)", r4_pair_order, 2, ["default", "all-features", "server-only"]),
    ("C16.R20", "mutators this property relies on always perform their effect (rules/mutators.py): no early return, no guard outside the allowed set", r20_unconditional_mutators, 1, ["default", "all-features"]),
    ("C16.R5", "the update tick is bumped and the update message built before the mutate messages of the same tick are stamped (same rule as C04.R2)", r5_update_tick_before_mutations, 5, ["default", "all-features", "server-only"]),
]
THOROUGH_CONFIGS = ["default", "all-features", "server-only", "client-only"]
