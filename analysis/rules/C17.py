"""C17 - The example transport preserves per-channel order and delivers exactly once."""
import re

from engine import site_of
from facts import callee_decl, callee_name
from flow import switch_cond, edge_outcome, tracer, short, required_outcomes, dep_closure, resolve_through_closure, deep_origins
from bounds import const_value

EXPLANATION = (
    "R1: for every BinaryHeap<T> of the example backend, T's Ord::cmp must read a *sequence field* - a field that at "
    "every construction site of T is taken from a counter of the owner which is incremented on the same path - and every "
    "compared field must be compared in reversed orientation (other.f vs self.f, the heap is a max-heap and pop must yield "
    "the earliest message). R2: writer and reader of the TCP framing agree on field order, widths and endianness and the "
    "reader skips exactly the header it parsed. R3: every message read is handed to the conditioner exactly once and every "
    "popped message to insert_received exactly once with its own channel and payload.")
NOT_DECIDED = "behaviour of non-blocking read_exact / write_vectored on partial frames; ordering across different timestamps under the link conditioner"
TRUSTED_BASE = ["std::collections::BinaryHeap is a max-heap and not stable for equal keys", "TCP delivers bytes in order"]
CRATE = "bevy_replicon_example_backend"


def heap_element_types(ctx):
    out = []
    for path, a in ctx.F.adts.items():
        if a["crate"] != CRATE:
            continue
        for v in a["variants"]:
            for f in v["fields"]:
                m = re.search(r"BinaryHeap<([^,>]+)", f["ty"])
                if m:
                    out.append((path, f["name"], m.group(1).strip()))
    return out


def _cmp_calls(F, body):
    """(body, bb, lhs_owner_param, lhs_field, rhs_owner_param, rhs_field) for every Ord::cmp / partial_cmp in body + closures."""
    res = []
    for b in F.with_closures(body):
        tr = tracer(b)
        for bb, t in b.calls():
            d = callee_decl(t)
            if d in ("core::cmp::Ord::cmp", "core::cmp::PartialOrd::partial_cmp") and len(t["args"]) == 2:
                sides = []
                for a in t["args"]:
                    owners = set()
                    for (pb, o) in resolve_through_closure(F, b, tr.operand(a)):
                        fld = [e for e in o.path if e[0] == "f" and e[3]]
                        owners.add((o.data if o.kind == "param" else None, fld[-1][2] if fld else None, fld[-1][3] if fld else None))
                    sides.append(owners)
                res.append((b, bb, sides))
    return res


def r1_heap_order(ctx):
    F = ctx.F
    heaps = heap_element_types(ctx)
    if not heaps:
        ctx.ok("no-binary-heap", "", "no BinaryHeap in the example backend: arrival order is whatever the container preserves (rule has no instance)")
        return
    for owner, field, elem in heaps:
        cmpfn = [b for p, b in F.fns.items() if p.startswith("<" + elem + " as core::cmp::Ord>::cmp")]
        if not cmpfn:
            ctx.bad("%s/cmp" % short(elem), "", "Ord::cmp of heap element not found", kind="anchor-missing")
            continue
        cb = cmpfn[0]
        calls = _cmp_calls(F, cb)
        compared = []
        for (b, bb, sides) in calls:
            for (lp, lf, ladt) in sides[0]:
                for (rp, rf, radt) in sides[1]:
                    compared.append((lf, lp, rf, rp, b, bb))
        fields_read = {c[0] for c in compared if c[0]} | {c[2] for c in compared if c[2]}
        # orientation: lhs owner = other (param 2), rhs owner = self (param 1)
        for (lf, lp, rf, rp, b, bb) in compared:
            ctx.check(lf == rf and lp == 2 and rp == 1, "%s/cmp-reversed@%s" % (short(elem), lf), site_of(b, bb),
                      "field `%s` is compared as param%s.%s vs param%s.%s: a max-heap needs `other.f.cmp(&self.f)` for every key so that pop() yields the earliest message" % (lf, lp, lf, rp, rf),
                      "other.%s vs self.%s" % (lf, rf))
        # sequence field at every construction site
        seq_fields = None
        counters = {}
        sites = 0
        for body in F.real_fns():
            if body.crate != CRATE or "::tests::" in body.path or body.j.get("derived"):
                continue
            tr = tracer(body)
            for bb, i, s in body.statements():
                if s["s"] == "assign" and s["rvalue"]["rv"] == "agg" and s["rvalue"].get("adt") == elem:
                    sites += 1
                    rv = s["rvalue"]
                    here = set()
                    for idx, op in enumerate(rv["ops"]):
                        fname = rv["fields"][idx]
                        for o in tr.operand(op):
                            cnt = [e for e in o.path if e[0] == "f" and e[3]]
                            if o.kind == "param" and cnt and _incremented(body, bb, cnt[-1]):
                                here.add(fname)
                                counters[fname] = (cnt[-1][3], cnt[-1][2])
                    seq_fields = here if seq_fields is None else (seq_fields & here)
        if sites == 0:
            ctx.bad("%s/construction" % short(elem), "", "no construction site of the heap element found", kind="anchor-missing")
            continue
        # the insertion counter never wraps or saturates within any realistic lifetime
        for fname in sorted((seq_fields or set()) & fields_read):
            adt_, fld_ = counters.get(fname, (None, None))
            fty = next((f["ty"] for f in (F.adt_fields(adt_) or []) if f["name"] == fld_), "")
            ety = next((f["ty"] for f in (F.adt_fields(elem) or []) if f["name"] == fname), "")
            width = min({"u8": 8, "u16": 16, "u32": 32, "u64": 64, "usize": 64, "u128": 128, "i8": 8, "i16": 16, "i32": 32, "i64": 64, "i128": 128}.get(x, 64) for x in (fty, ety))
            kind = _INC_KIND.get((adt_, fld_), "add")
            ctx.check(width >= 64, "%s/sequence-counter-wide-enough" % short(elem), site_of(cb),
                      "the insertion counter `%s` is %d bits wide (%s increment): after 2^%d insertions it %s and messages with equal timestamps pop out of insertion order" % (
                          fname, width, kind, width, "stops growing" if kind == "saturating" else "wraps (or panics in debug builds)"),
                      "%d-bit counter, %s increment" % (width, kind))
        ok = bool(seq_fields and (seq_fields & fields_read))
        ctx.check(ok, "%s/cmp-reads-sequence-field" % short(elem), site_of(cb),
                  "Ord::cmp of `%s` reads only %s; none of them is an insertion counter (sequence fields at construction: %s). "
                  "BinaryHeap is not stable: messages read in one frame carry the same timestamp and pop in arbitrary order" % (
                      short(elem), sorted(fields_read), sorted(seq_fields or [])),
                  "cmp reads %s; sequence field(s) %s" % (sorted(fields_read), sorted(seq_fields or [])))
    # unstable sorts on the receive path
    for body in F.real_fns():
        if body.crate != CRATE or "::tests::" in body.path:
            continue
        for bb, t in body.calls():
            if "sort_unstable" in callee_decl(t):
                ctx.bad("%s/sort_unstable" % short(body.path), site_of(body, bb), "unstable sort in the transport (equal keys are reordered)")


_INC_KIND = {}


def _incremented(body, site_bb, field_elem):
    """The place `self.<field>` is assigned `self.<field> + const` on the same path as site_bb."""
    tr = tracer(body)
    for bb, i, s in body.statements():
        if s["s"] != "assign" or not s["place"]["p"]:
            continue
        last = s["place"]["p"][-1]
        if not (isinstance(last, dict) and last.get("name") == field_elem[2] and last.get("adt") == field_elem[3]):
            continue
        deps = deep_origins(body, {"k": "copy", "place": s["place"]}) if False else None
        rv = s["rvalue"]
        srcs = set()
        for o in deep_origins(body, rv["op"]) if rv["rv"] in ("use", "cast") else []:
            srcs.add(o)
        if rv["rv"] == "bin":
            for o in deep_origins(body, rv["a"]) | deep_origins(body, rv["b"]):
                srcs.add(o)
        reads_self = any(o.path and o.path[-1][0] == "f" and o.path[-1][2] == field_elem[2] for o in srcs)
        adds_const = any(o.kind == "const" for o in srcs)
        kind = "add"
        # increments written as a method call: x.wrapping_add(1), checked_add(1).unwrap(), saturating_add(1), Add::add(x, 1)
        for o in list(srcs):
            if o.kind == "call":
                ct = body.blocks[o.data].term
                m = callee_decl(ct).rsplit("::", 1)[-1]
                if m in ("wrapping_add", "checked_add", "saturating_add", "add", "overflowing_add", "strict_add", "unchecked_add") and len(ct.get("args", [])) == 2:
                    a_src = deep_origins(body, ct["args"][0])
                    b_src = deep_origins(body, ct["args"][1])
                    if any(x.path and x.path[-1][0] == "f" and x.path[-1][2] == field_elem[2] for x in a_src) and any(x.kind == "const" for x in b_src):
                        reads_self, adds_const = True, True
                        kind = {"wrapping_add": "wrapping", "overflowing_add": "wrapping", "saturating_add": "saturating", "unchecked_add": "wrapping"}.get(m, "add")
        if reads_self and adds_const:
            if body.dominates(site_bb, bb) and body.postdominates(bb, site_bb) or body.dominates(bb, site_bb):
                _INC_KIND[(field_elem[3], field_elem[2])] = kind
                return True
    return False


def r2_framing(ctx):
    F = ctx.F
    rd = ctx.fn("tcp::read_message", CRATE)
    wr = ctx.fn("tcp::send_message", CRATE)
    rtr, wtr = tracer(rd), tracer(wr)
    # reader -------------------------------------------------------------
    header = None
    for bb, i, s in rd.statements():
        if s["s"] == "assign" and s["rvalue"]["rv"] == "repeat" and not s["place"]["p"]:
            header = (s["place"]["l"], int(str(s["rvalue"]["n"]).split("_")[0]))
    if header is None:
        ctx.bad("reader/header", site_of(rd), "fixed-size header buffer not found", kind="anchor-missing")
        return
    hl, hlen = header
    fl = [(bb, t) for bb, t in rd.calls() if re.match(r"core::num::<impl u(8|16|32|64)>::from_(le|be|ne)_bytes$", callee_decl(t))]
    tl = [(bb, t) for bb, t in wr.calls() if re.match(r"core::num::<impl u(8|16|32|64)>::to_(le|be|ne)_bytes$", callee_decl(t))]
    if len(fl) != 1 or len(tl) != 1:
        ctx.bad("length-codec", site_of(rd), "expected exactly one from_*_bytes in the reader and one to_*_bytes in the writer (%d/%d)" % (len(fl), len(tl)), kind="anchor-missing")
        return
    rm = re.match(r"core::num::<impl u(\d+)>::from_(\w+)_bytes$", callee_decl(fl[0][1]))
    wm = re.match(r"core::num::<impl u(\d+)>::to_(\w+)_bytes$", callee_decl(tl[0][1]))
    ctx.check(rm.groups() == wm.groups(), "length-width-and-endianness", site_of(rd, fl[0][0]),
              "reader decodes the length as u%s %s-endian, writer encodes it as u%s %s-endian" % (rm.group(1), rm.group(2), wm.group(1), wm.group(2)),
              "u%s %s-endian on both sides" % rm.groups())
    width = int(rm.group(1)) // 8

    def header_indices(op):
        idxs = []
        for o in rtr.operand(op):
            if o.kind == "stmt":
                rv = rd.blocks[o.data[0]].stmts[o.data[1]]["rvalue"]
                if rv["rv"] == "agg" and rv["kind"] == "array":
                    for e in rv["ops"]:
                        idxs += header_indices(e)
        pl = op.get("place")
        if pl and pl["l"] == hl and pl["p"] and isinstance(pl["p"][-1], dict) and "index" in pl["p"][-1]:
            idxs.append(const_value(rd, {"k": "copy", "place": {"l": pl["p"][-1]["index"], "p": []}}))
        elif pl and not idxs:
            # follow single-assignment temporaries
            for bb, i, s in rd.statements():
                if s["s"] == "assign" and s["place"] == {"l": pl["l"], "p": []} and s["rvalue"]["rv"] == "use":
                    idxs += header_indices(s["rvalue"]["op"])
                elif s["s"] == "assign" and s["place"] == {"l": pl["l"], "p": []} and s["rvalue"]["rv"] == "agg":
                    for e in s["rvalue"]["ops"]:
                        idxs += header_indices(e)
        return idxs

    size_idx = header_indices(fl[0][1]["args"][0])
    # channel: the value returned in the Ok tuple field 0
    chan_idx = []
    for bb, i, s in rd.statements():
        if s["s"] == "assign" and s["rvalue"]["rv"] == "agg" and s["rvalue"]["kind"] == "tuple" and len(s["rvalue"]["ops"]) == 2:
            chan_idx = header_indices(s["rvalue"]["ops"][0])
    ctx.check(chan_idx == [0], "reader/channel-is-first-byte", site_of(rd), "channel id is read from header index %s (writer puts it first)" % chan_idx)
    ctx.check(size_idx == list(range(1, 1 + width)), "reader/length-follows-channel", site_of(rd, fl[0][0]),
              "length is decoded from header bytes %s, expected %s" % (size_idx, list(range(1, 1 + width))))
    ctx.check(hlen == 1 + width, "reader/header-length", site_of(rd), "header buffer has %d bytes, the frame header has 1 + %d" % (hlen, width))
    # allocation = header + size ; advance(header.len())
    def is_header_len(op):
        for o in rtr.operand(op):
            if o.kind == "call" and callee_decl(rd.blocks[o.data].term).endswith("::len"):
                src = rtr.operand(rd.blocks[o.data].term["args"][0])
                if all(x.kind == "stmt" and rd.blocks[x.data[0]].stmts[x.data[1]]["rvalue"]["rv"] == "repeat" for x in src):
                    continue
                return False
            elif o.kind == "const" and o.data[0] == "val" and o.data[1] == hlen:
                continue
            else:
                return False
        return True
    adv = [(bb, t) for bb, t in rd.calls() if callee_decl(t).endswith("Buf::advance")]
    ctx.check(len(adv) == 1 and is_header_len(adv[0][1]["args"][1]), "reader/skips-exactly-the-header", site_of(rd, adv[0][0] if adv else None),
              "the payload is not obtained by skipping exactly header.len() bytes")
    alloc = [(bb, t) for bb, t in rd.calls() if callee_decl(t).endswith("vec::from_elem")]
    ok = False
    for bb, t in alloc:
        d = dep_closure(rd, t["args"][1])
        ok = ("call", fl[0][0]) in d and any(k == "call" and callee_decl(rd.blocks[x].term).endswith("::len") for (k, x) in d if k == "call")
    ctx.check(ok, "reader/reads-header-plus-length", site_of(rd), "the frame buffer is not sized header.len() + decoded length")
    rex = [(bb, t) for bb, t in rd.calls() if callee_decl(t).endswith("Read::read_exact")]
    ctx.check(len(rex) == 1, "reader/one-read-per-frame", site_of(rd), "%d read_exact calls per frame" % len(rex))
    # the full-header guard: proceeds only when peek returned >= header length
    pk = [(bb, t) for bb, t in rd.calls() if callee_decl(t).endswith("TcpStream::peek")]
    ok = False
    detail = ""
    if pk and fl:
        from bounds import values_reaching
        # the peeked byte count: the `?`-unwrapped result of peek
        cnt = None
        for bb, i, st in rd.statements():
            if st["s"] == "assign" and st["rvalue"]["rv"] == "use":
                o = rtr.operand(st["rvalue"]["op"])
                if o and all(x.kind == "call" and x.data == pk[0][0] and x.path == (("U",),) for x in o):
                    cnt = o
        if cnt:
            reach = values_reaching(rd, pk[0][0], cnt, fl[0][0], range(0, hlen + 3))
            detail = "peek counts that reach the header parse: %s" % sorted(reach)
            ok = bool(reach) and min(reach) >= hlen
    ctx.check(ok, "reader/waits-for-full-header", site_of(rd), "the header is parsed although peek() may have seen fewer than %d bytes (%s)" % (hlen, detail), detail)
    # writer -------------------------------------------------------------
    pkt = None
    for bb, i, s in wr.statements():
        if s["s"] == "assign" and s["rvalue"]["rv"] == "agg" and s["rvalue"]["kind"] == "array" and "IoSlice" in s["rvalue"].get("ty", ""):
            pkt = s["rvalue"]
    if pkt is None:
        ctx.bad("writer/packet", site_of(wr), "IoSlice packet array not found", kind="anchor-missing")
        return
    kinds = []
    for op in pkt["ops"]:
        d = dep_closure(wr, op)
        has_le = ("call", tl[0][0]) in d
        from_msg = ("param", 3) in d
        from_chan = ("param", 2) in d
        kinds.append("length" if has_le else "channel" if from_chan and not from_msg else "payload" if from_msg else "?")
    ctx.check(kinds == ["channel", "length", "payload"], "writer/field-order", site_of(wr), "writer emits %s; reader expects [channel, length, payload]" % kinds, str(kinds))
    ld = dep_closure(wr, tl[0][1]["args"][0])
    ok = any(k == "call" and callee_decl(wr.blocks[x].term).endswith("::len") for (k, x) in ld if k == "call") and ("param", 3) in ld
    ctx.check(ok, "writer/length-is-payload-length", site_of(wr, tl[0][0]), "the encoded length is not message.len()")
    # channel written as one byte
    ch_ok = False
    for bb, t in wr.calls():
        if callee_decl(t).endswith("TryInto::try_into") and [a for a in t["callee"]["args"]][-1] == "u8" and ("param", 2) in dep_closure(wr, t["args"][0]):
            ch_ok = True
    ctx.check(ch_ok, "writer/channel-is-one-byte", site_of(wr), "the channel id is not narrowed to a single byte")
    wv = [(bb, t) for bb, t in wr.calls() if "Write>::write" in callee_name(t) or callee_decl(t).endswith("Write::write_vectored") or callee_decl(t).endswith("Write::write_all")]
    ctx.check(len(wv) == 1, "writer/single-write", site_of(wr), "%d write calls per frame" % len(wv))


def r3_handoff(ctx):
    F = ctx.F
    fns = [b for b in F.find("receive_packets") if b.crate == CRATE]
    if len(fns) != 2:
        ctx.bad("receive_packets", "", "expected the client's and the server's receive_packets", kind="anchor-missing")
        return
    for b in fns:
        tr = tracer(b)
        reads = [(bb, t) for bb, t in b.calls() if callee_decl(t).endswith("tcp::read_message")]
        ins = [(bb, t) for bb, t in b.calls() if callee_decl(t).endswith("LinkConditioner::insert")]
        pops = [(bb, t) for bb, t in b.calls() if callee_decl(t).endswith("LinkConditioner::pop")]
        recv = [(bb, t) for bb, t in b.calls() if callee_decl(t).endswith("::insert_received")]
        name = short(b.path)
        ctx.check(len(reads) == 1 and len(ins) == 1, "%s/one-insert-per-read" % name, site_of(b), "%d read_message / %d conditioner.insert sites" % (len(reads), len(ins)))
        ctx.check(len(pops) == 1 and len(recv) == 1, "%s/one-handoff-per-pop" % name, site_of(b), "%d pop / %d insert_received sites" % (len(pops), len(recv)))
        if len(reads) == 1 and len(ins) == 1:
            rbb = reads[0][0]
            ibb, it = ins[0]
            ch = tr.operand(it["args"][3])
            msg = tr.operand(it["args"][4])
            okc = all(o.kind == "call" and o.data == rbb and [e for e in o.path if e[0] == "f"][-1][1] == 0 for o in ch) and ch
            okm = all(o.kind == "call" and o.data == rbb and [e for e in o.path if e[0] == "f"][-1][1] == 1 for o in msg) and msg
            ctx.check(bool(okc and okm), "%s/insert-gets-read-channel-and-payload" % name, site_of(b, ibb),
                      "conditioner.insert is not given the channel and payload of the message just read")
            g = [(c, o) for (s, c, o) in required_outcomes(F, b, ibb, skip_try=False) if c["kind"] == "variant"]
            ctx.check(any(o == {"Ok"} for c, o in g), "%s/insert-on-Ok" % name, site_of(b, ibb), "insert is not on the Ok edge of read_message")
            # exactly once: a message that was read (and is thereby gone from the stream) is always inserted - from the Ok outcome of
            # the read no path leads to the next read, or out of the function, without the insert
            okt = []
            for bb2 in b.reach:
                if b.blocks[bb2].term["t"] != "switch":
                    continue
                c2 = switch_cond(b, bb2)
                if c2["kind"] == "variant" and "place" in c2 and any(o.kind == "call" and o.data == rbb for o in tr.place(c2["place"])):
                    if b.dominates(ibb, bb2):
                        continue  # drop-elaboration re-tests the result after the insert
                    for (tb, lab) in b.succ[bb2]:
                        out = edge_outcome(F, b, bb2, lab, c2)
                        outs = set(out) if isinstance(out, (tuple, list, set)) else {out}
                        if "Ok" in outs:
                            okt.append(tb)
            lost = []
            for tb in okt:
                for target in [rbb] + b.exits():
                    if b.reachable_avoiding(target, (), start=tb, removed_blocks=(ibb,)):
                        lost.append(target)
            ctx.check(bool(okt) and not lost, "%s/every-read-message-is-inserted" % name, site_of(b, ibb),
                      "a message that was successfully read from the stream can be dropped (the Ok outcome of read_message reaches %s without conditioner.insert): "
                      "it is gone from the socket and never delivered" % ("the next read" if rbb in lost else "the end of the function"))
            # same loop as the read
            ctx.check({h for h, _ in b.loops_containing(rbb)} == {h for h, _ in b.loops_containing(ibb)} and b.loops_containing(rbb),
                      "%s/insert-in-read-loop" % name, site_of(b, ibb), "read and insert are not in the same loop")
            # same `now` for insert and pop (messages become ready in the frame they arrive when unconditioned)
            if pops:
                ctx.check(tr.operand(it["args"][2]) == tr.operand(pops[0][1]["args"][1]), "%s/same-clock" % name, site_of(b, ibb),
                          "insert and pop use different clock readings")
        if len(pops) == 1 and len(recv) == 1:
            pbb = pops[0][0]
            rbb2, rt = recv[0]
            a_ch, a_msg = rt["args"][-2], rt["args"][-1]
            ch = tr.operand(a_ch)
            msg = tr.operand(a_msg)
            okc = ch and all(o.kind == "call" and o.data == pbb and [e for e in o.path if e[0] == "f"][-1][1] == 0 for o in ch)
            okm = msg and all(o.kind == "call" and o.data == pbb and [e for e in o.path if e[0] == "f"][-1][1] == 1 for o in msg)
            ctx.check(bool(okc and okm), "%s/handoff-gets-popped-channel-and-payload" % name, site_of(b, rbb2),
                      "insert_received is not given the channel and payload of the popped message")
            outer = [bb for bb, t in b.calls() if callee_decl(t).endswith("Iterator::next") or callee_decl(t).endswith("tcp::read_message")]
            drains = any(b.reachable_avoiding(pbb, (), start=tb, removed_blocks=outer) for (tb, _) in b.succ[rbb2])
            ctx.check(drains, "%s/pop-until-empty" % name, site_of(b, pbb),
                      "after handing over a popped message control does not return to pop() within the same frame/client: at most one message is delivered per frame")
            g = [(c, o) for (s, c, o) in required_outcomes(F, b, rbb2) if c["kind"] == "variant"]
            ctx.check(any(o == {"Some"} for c, o in g) and len([1 for (s, c, o) in required_outcomes(F, b, rbb2) if c["kind"] in ("cmp", "boolcall")]) == 0,
                      "%s/handoff-unconditional" % name, site_of(b, rbb2), "a popped message is handed over only conditionally")
    # pop(): returns the popped element's own channel and payload, only when its time has come
    pop = ctx.fn("LinkConditioner::pop", CRATE)
    hp = [(bb, t) for bb, t in pop.calls() if callee_decl(t).endswith("BinaryHeap::<T, A>::pop")]
    ctx.check(len(hp) == 1, "LinkConditioner::pop/single-heap-pop", site_of(pop), "%d heap pops" % len(hp))
    ins = ctx.fn("LinkConditioner::insert", CRATE)
    pushes = [(bb, t) for bb, t in ins.calls() if callee_decl(t).endswith("BinaryHeap::<T, A>::push")]
    ctx.check(len(pushes) == 1 and not ins.loops_containing(pushes[0][0]), "LinkConditioner::insert/single-push", site_of(ins), "a message is pushed %d times" % len(pushes))
    if pushes:
        bb, t = pushes[0]
        tr = tracer(ins)
        for o in tr.operand(t["args"][1]):
            if o.kind == "stmt":
                rv = ins.blocks[o.data[0]].stmts[o.data[1]]["rvalue"]
                if rv["rv"] == "agg":
                    m = dict(zip(rv["fields"], rv["ops"]))
                    okc = all(x.kind == "param" and x.data == 4 for x in tr.operand(m.get("channel_id", {})))
                    okm = all(x.kind == "param" and x.data == 5 for x in tr.operand(m.get("message", {})))
                    ctx.check(okc and okm, "LinkConditioner::insert/stores-own-channel-and-payload", site_of(ins, bb), "the stored element does not carry the inserted channel/payload")
        # without a config nothing is dropped: the push is reachable from the None edge of `config`
        g = [(c, o) for (s, c, o) in required_outcomes(F, ins, bb)]
        ctx.check(not g, "LinkConditioner::insert/push-unconditional-without-config", site_of(ins, bb),
                  "the push is guarded by %s even without a conditioner config" % [(c["kind"], sorted(map(str, o))) for c, o in g])


RULES = [
    ("C17.R1", "heap keys are unique and insertion-ordered (sequence field compared, consistent reversal)", r1_heap_order, 2, ["default", "all-features"]),
    ("C17.R2", "TCP framing: writer and reader agree on order, widths, endianness; reader skips exactly the header", r2_framing, 10, ["default", "all-features"]),
    ("C17.R3", "one hand-off per message with its own channel and payload", r3_handoff, 14, ["default", "all-features"]),
]
THOROUGH_CONFIGS = ["default", "all-features"]
