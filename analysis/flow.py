"""Value flow (A3) and guards (A4) over the MIR facts.

Origins: where a value may come from, following copies, moves, references, derefs,
value-preserving casts, aggregates (by field), and a table of value-preserving library
adapters. Flow-insensitive per local (union over all definitions), so "may come from".

Guards: the outcome of dominating `SwitchInt`s that a block requires, with the switch
condition recovered as a comparison / boolean call / enum-variant test.
"""
from collections import namedtuple

from facts import callee_decl, callee_name, op_place

Origin = namedtuple("Origin", "kind data path")
# kind: param(data=local) | call(data=bb) | const(data=json-ish tuple) | stmt(data=(bb,i)) | unknown
# path: tuple of ('f', idx, name, adt) | ('v', variant) | ('U',) | ('item',) | ('idx',)

UNWRAP_VARIANTS = {"Some", "Ok", "Continue"}

# callee (declared or resolved path, generics stripped by `base_name`) -> how the result relates to arg0
TRANSPARENT = {
    "core::ops::Deref::deref", "core::ops::DerefMut::deref_mut",
    "core::ops::deref::Deref::deref", "core::ops::deref::DerefMut::deref_mut",
    "core::clone::Clone::clone", "core::borrow::Borrow::borrow", "core::borrow::BorrowMut::borrow_mut",
    "core::convert::AsRef::as_ref", "core::convert::AsMut::as_mut",
    "core::convert::Into::into", "core::convert::From::from",
    "core::option::Option::<T>::copied", "core::option::Option::<T>::cloned",
    "core::option::Option::<T>::as_ref", "core::option::Option::<T>::as_mut",
    "core::option::Option::<T>::as_deref", "core::option::Option::<T>::as_deref_mut",
    "core::option::Option::<T>::filter", "core::option::Option::<T>::take",
    "core::option::Option::<&T>::copied", "core::option::Option::<&T>::cloned",
    "core::option::Option::<&mut T>::copied", "core::option::Option::<&mut T>::cloned",
    "core::result::Result::<T, E>::as_ref", "core::result::Result::<T, E>::as_mut",
    "core::result::Result::<T, E>::ok",
    "core::ops::Try::branch", "core::ops::try_trait::Try::branch",
    "core::iter::IntoIterator::into_iter", "core::iter::traits::collect::IntoIterator::into_iter",
    "core::iter::Iterator::by_ref", "core::iter::traits::iterator::Iterator::by_ref",
    "core::iter::Iterator::copied", "core::iter::Iterator::cloned",
    "core::iter::traits::iterator::Iterator::copied", "core::iter::traits::iterator::Iterator::cloned",
    "bevy_ecs::change_detection::Mut::<'w, T>::into_inner", "bevy_ecs::change_detection::ResMut::<'w, T>::into_inner",
    "bevy_ecs::change_detection::Res::<'w, T>::into_inner", "bevy_ecs::change_detection::Ref::<'w, T>::into_inner",
    "bevy_ecs::change_detection::Mut::<'w, T>::reborrow", "bevy_ecs::change_detection::ResMut::<'w, T>::reborrow",
    "bevy_ecs::change_detection::DetectChangesMut::bypass_change_detection",
    "bevy_ecs::system::Local::<'s, T>::deref_mut",
}
UNWRAPPING = {
    "core::option::Option::<T>::unwrap", "core::option::Option::<T>::expect",
    "core::result::Result::<T, E>::unwrap", "core::result::Result::<T, E>::expect",
    "core::option::Option::<T>::unwrap_unchecked", "core::result::Result::<T, E>::unwrap_unchecked",
}
ITER_NEXT = {
    "core::iter::Iterator::next", "core::iter::traits::iterator::Iterator::next",
}


def norm_proj(p):
    """MIR projection list -> normalised path (derefs dropped, unwrap-like downcasts folded)."""
    out = []
    i = 0
    while i < len(p):
        e = p[i]
        if e == "deref" or e in ("opaquecast", "unwrapbinder"):
            pass
        elif e == "subslice":
            pass
        elif isinstance(e, dict) and "downcast" in e:
            nxt = p[i + 1] if i + 1 < len(p) else None
            if e["downcast"] in UNWRAP_VARIANTS and isinstance(nxt, dict) and nxt.get("f") == 0:
                out.append(PE(("U",)))
                i += 1
            else:
                out.append(PE(("v", e["downcast"])))
        elif isinstance(e, dict) and "f" in e:
            out.append(PE(("f", e["f"], e.get("name"), e.get("adt") or e.get("closure"))))
        elif isinstance(e, dict) and ("index" in e or "constindex" in e):
            out.append(PE(("idx",)))
        i += 1
    return tuple(out)


class PE(tuple):
    """A path element: ("f", index, name, adt) | ("v", variant) | ("U",) | ("idx",) | ("item",). Indexing past the end gives None so
    that rules asking for a field name of a non-field element do not crash."""
    __slots__ = ()

    def __getitem__(self, i):
        if isinstance(i, int) and (i >= len(self) or i < -len(self)):
            return None
        return tuple.__getitem__(self, i)


def const_key(c):
    if "fndef" in c:
        return ("fn", c.get("resolved") or c["fndef"], tuple(c.get("args", [])))
    if "val" in c:
        return ("val", c["val"], c["ty"])
    if "promoted" in c:
        return ("promoted", c["promoted"])
    if "unevaluated" in c:
        return ("uneval", c["unevaluated"])
    if "str" in c:
        return ("str", c["str"])
    return ("ty", c["ty"])


class Tracer:
    def __init__(self, body, follow_next=True):
        self.b = body
        self.follow_next = follow_next
        self.defs = {}
        self.partial = {}
        for bb, i, s in body.statements():
            if s["s"] != "assign":
                continue
            pl = s["place"]
            if not pl["p"]:
                self.defs.setdefault(pl["l"], []).append(("stmt", bb, i))
            else:
                self.partial.setdefault(pl["l"], []).append(("stmt", bb, i))
        for bb, t in body.calls():
            if "dest" in t:
                pl = t["dest"]
                if not pl["p"]:
                    self.defs.setdefault(pl["l"], []).append(("call", bb))
                else:
                    self.partial.setdefault(pl["l"], []).append(("call", bb))
        self._memo = {}

    # ---------------------------------------------------------------- public
    def operand(self, op, path=()):
        if op.get("k") == "const":
            return {Origin("const", const_key(op), tuple(path))}
        pl = op_place(op)
        if pl is None:
            return {Origin("unknown", None, tuple(path))}
        return self.place(pl, path)

    def place(self, pl, path=()):
        return self._trace(pl["l"], norm_proj(pl["p"]) + tuple(path), frozenset())

    def local(self, l, path=()):
        return self._trace(l, tuple(path), frozenset())

    # -------------------------------------------------------------- internal
    def _trace(self, l, path, visiting):
        key = (l, path)
        if key in self._memo:
            return self._memo[key]
        if key in visiting:
            return set()
        visiting = visiting | {key}
        out = set()
        ds = self.defs.get(l, [])
        if 1 <= l <= self.b.arg_count:
            out.add(Origin("param", l, path))
        for d in ds:
            if d[0] == "call":
                out |= self._from_call(d[1], path, visiting)
            else:
                out |= self._from_stmt(d[1], d[2], path, visiting)
        for d in self.partial.get(l, []):
            if d[0] == "stmt":
                s = self.b.blocks[d[1]].stmts[d[2]]
                pp = norm_proj(s["place"]["p"])
                if pp and path[:len(pp)] == pp:
                    out |= self._rvalue(s["rvalue"], d[1], d[2], path[len(pp):], visiting)
                elif pp[:len(path)] == path:
                    out.add(Origin("stmt", (d[1], d[2]), ()))
            else:
                t = self.b.blocks[d[1]].term
                pp = norm_proj(t["dest"]["p"])
                if pp and path[:len(pp)] == pp:
                    out |= self._from_call(d[1], path[len(pp):], visiting)
                elif pp[:len(path)] == path:
                    out.add(Origin("call", d[1], ()))
        if not out:
            out.add(Origin("unknown", l, path))
        if not (visiting - {key}):
            self._memo[key] = out
        return out

    def _from_stmt(self, bb, i, path, visiting):
        s = self.b.blocks[bb].stmts[i]
        return self._rvalue(s["rvalue"], bb, i, path, visiting)

    def _op(self, op, path, visiting):
        if op.get("k") == "const":
            return {Origin("const", const_key(op), path)}
        pl = op_place(op)
        if pl is None:
            return {Origin("unknown", None, path)}
        return self._trace(pl["l"], norm_proj(pl["p"]) + path, visiting)

    def _rvalue(self, rv, bb, i, path, visiting):
        k = rv["rv"]
        if k == "use":
            return self._op(rv["op"], path, visiting)
        if k in ("ref", "rawptr"):
            pl = rv["place"]
            return self._trace(pl["l"], norm_proj(pl["p"]) + path, visiting)
        if k == "cast":
            kind = rv["kind"]
            if kind in ("IntToInt", "PtrToPtr", "Transmute", "Subtype") or kind.startswith("ptrcoerce"):
                return self._op(rv["op"], path, visiting)
            return {Origin("stmt", (bb, i), path)}
        if k == "agg":
            if path:
                e = path[0]
                rest = path[1:]
                if rv["kind"] == "adt" and e[0] == "v":
                    if e[1] == rv["variant"] and rest and rest[0][0] == "f":
                        idx = rest[0][1]
                        if idx < len(rv["ops"]):
                            return self._op(rv["ops"][idx], rest[1:], visiting)
                    return set()
                if rv["kind"] == "adt" and e[0] == "U" and rv["variant"] in UNWRAP_VARIANTS:
                    return self._op(rv["ops"][0], rest, visiting)
                if e[0] == "f" and e[1] < len(rv["ops"]):
                    return self._op(rv["ops"][e[1]], rest, visiting)
                if e[0] == "idx" and rv["kind"] == "array":
                    out = set()
                    for o in rv["ops"]:
                        out |= self._op(o, rest, visiting)
                    return out
            return {Origin("stmt", (bb, i), path)}
        return {Origin("stmt", (bb, i), path)}

    def _from_call(self, bb, path, visiting):
        t = self.b.blocks[bb].term
        name = callee_name(t)
        decl = callee_decl(t)
        args = t.get("args", [])
        if args and (name in TRANSPARENT or decl in TRANSPARENT):
            return self._op(args[0], path, visiting)
        if args and (name in UNWRAPPING or decl in UNWRAPPING):
            return self._op(args[0], (PE(("U",)),) + path, visiting)
        if self.follow_next and args and (name in ITER_NEXT or decl in ITER_NEXT):
            if path and path[0] == ("U",):
                return self._op(args[0], (PE(("item",)),) + path[1:], visiting)
        return {Origin("call", bb, path)}

    # ------------------------------------------------------------ conveniences
    def call_origins(self, op, path=None):
        """Blocks of the calls the operand's value may come from (any path unless given)."""
        return {o.data for o in self.operand(op) if o.kind == "call" and (path is None or o.path == tuple(path))}

    def callee_of(self, bb):
        return callee_name(self.b.blocks[bb].term)

    def describe(self, o):
        if o.kind == "call":
            return "call %s%s" % (short(self.callee_of(o.data)), fmt_path(o.path))
        if o.kind == "param":
            nm = self.b.local_name(o.data) or "_%d" % o.data
            return "param %s%s" % (nm, fmt_path(o.path))
        if o.kind == "const":
            return "const %s%s" % (o.data[1] if len(o.data) > 1 else o.data, fmt_path(o.path))
        if o.kind == "stmt":
            s = self.b.blocks[o.data[0]].stmts[o.data[1]]
            rv = s["rvalue"]
            return "%s%s%s" % (rv["rv"], ":" + rv.get("op", "") if isinstance(rv.get("op"), str) else "", fmt_path(o.path))
        return "unknown%s" % fmt_path(o.path)


def fmt_path(path):
    s = ""
    for e in path:
        if e[0] == "f":
            s += "." + str(e[2] if e[2] is not None else e[1])
        elif e[0] == "v":
            s += " as " + e[1]
        elif e[0] == "U":
            s += "?"
        elif e[0] == "item":
            s += "[item]"
        elif e[0] == "idx":
            s += "[i]"
    return s


def short(name):
    return name.replace("bevy_replicon::", "").replace("core::", "")


_tracers = {}


def tracer(body, follow_next=True):
    t = _tracers.get((id(body), follow_next))
    if t is None or t.b is not body:
        t = Tracer(body, follow_next)
        _tracers[(id(body), follow_next)] = t
    return t


# ---------------------------------------------------------------------- guards
CMP_OPS = {"Eq": "==", "Ne": "!=", "Lt": "<", "Le": "<=", "Gt": ">", "Ge": ">="}
CMP_CALLS = {
    "core::cmp::PartialOrd::gt": ">", "core::cmp::PartialOrd::ge": ">=",
    "core::cmp::PartialOrd::lt": "<", "core::cmp::PartialOrd::le": "<=",
    "core::cmp::PartialEq::eq": "==", "core::cmp::PartialEq::ne": "!=",
}
NEGATE = {"==": "!=", "!=": "==", "<": ">=", ">=": "<", ">": "<=", "<=": ">"}
SWAP = {"==": "==", "!=": "!=", "<": ">", ">": "<", "<=": ">=", ">=": "<="}


def is_debug_only(node):
    ms = node.get("macros") or []
    return any(m.startswith("debug_assert") for m in ms)


def switch_cond(body, bb):
    """Describes the condition tested by the SwitchInt ending block `bb`.
    Returns dict with 'kind' in cmp | boolcall | variant | const | expr, plus 'neg' (bool)
    meaning the switch operand is the negation of the described condition."""
    t = body.blocks[bb].term
    if t["t"] != "switch":
        return None
    tr = tracer(body)
    neg = False
    op = t["discr"]
    seen = 0
    while seen < 8:
        seen += 1
        if op.get("k") == "const":
            return {"kind": "const", "val": op.get("val"), "neg": neg, "debug_only": is_debug_only(t)}
        origins = tr.operand(op)
        if len(origins) != 1:
            return {"kind": "expr", "neg": neg, "origins": origins}
        o = next(iter(origins))
        if o.path:
            return {"kind": "expr", "neg": neg, "origins": origins}
        if o.kind == "const":
            return {"kind": "const", "val": o.data[1] if o.data[0] == "val" else None, "neg": neg,
                    "debug_only": is_debug_only(t)}
        if o.kind == "stmt":
            s = body.blocks[o.data[0]].stmts[o.data[1]]
            rv = s["rvalue"]
            if rv["rv"] == "un" and rv["op"] == "Not":
                neg = not neg
                op = rv["a"]
                continue
            if rv["rv"] == "bin" and rv["op"] in CMP_OPS:
                return {"kind": "cmp", "rel": CMP_OPS[rv["op"]], "a": rv["a"], "b": rv["b"], "neg": neg,
                        "site": ("stmt",) + tuple(o.data), "by_ref": False}
            if rv["rv"] == "discr":
                pl = rv["place"]
                adt = _place_adt(body, pl)
                return {"kind": "variant", "place": pl, "adt": adt, "neg": neg, "site": ("stmt",) + tuple(o.data)}
            return {"kind": "expr", "neg": neg, "origins": origins, "rvalue": rv}
        if o.kind == "call":
            ct = body.blocks[o.data].term
            decl = callee_decl(ct)
            if decl in CMP_CALLS and len(ct["args"]) == 2:
                return {"kind": "cmp", "rel": CMP_CALLS[decl], "a": ct["args"][0], "b": ct["args"][1], "neg": neg,
                        "site": ("call", o.data), "by_ref": True, "callee": callee_name(ct),
                        "targs": [a for a in ct["callee"].get("args", []) if not a.startswith("'")]}
            return {"kind": "boolcall", "bb": o.data, "name": callee_name(ct), "decl": decl, "args": ct["args"],
                    "neg": neg}
        return {"kind": "expr", "neg": neg, "origins": origins}
    return {"kind": "expr", "neg": neg}


def _place_adt(body, pl):
    """ADT path of the value at place (for variant switches)."""
    if not pl["p"]:
        return body.locals[pl["l"]].get("adt")
    last = None
    for e in pl["p"]:
        if isinstance(e, dict) and "ty" in e:
            last = e["ty"]
    if last:
        # strip generics and refs
        s = last.lstrip("&").replace("mut ", "")
        return s.split("<")[0]
    return body.locals[pl["l"]].get("adt")


def edge_outcome(facts, body, bb, label, cond=None):
    """Meaning of leaving switch block bb through `label`: True/False for boolean conditions,
    variant name for enum switches (or the raw label)."""
    cond = cond or switch_cond(body, bb)
    t = body.blocks[bb].term
    if cond["kind"] == "variant":
        if label == "otherwise":
            # the remaining variant if exactly one is missing
            adt = cond.get("adt")
            listed = {v for v, _ in t["targets"]}
            names = []
            a = facts.adts.get(adt) if facts else None
            if a:
                names = [v["name"] for v in a["variants"] if v.get("discr", v["idx"]) not in listed]
            else:
                for i in range(2):
                    if i not in listed:
                        n = facts.variant_name(adt, i) if facts else None
                        if n:
                            names.append(n)
            return tuple(names) if len(names) != 1 else names[0]
        a = facts.adts.get(cond.get("adt")) if facts else None
        if a:
            for v in a["variants"]:
                if v.get("discr", v["idx"]) == label:
                    return v["name"]
        n = facts.variant_name(cond.get("adt"), label) if facts else None
        return n if n is not None else label
    if t.get("discr_ty") == "bool" or cond["kind"] in ("cmp", "boolcall", "const"):
        val = (label != 0) if label != "otherwise" else True
        if label == "otherwise":
            listed = [v for v, _ in t["targets"]]
            val = not (listed == [1])  # switch on [1 -> x] otherwise y: otherwise means false
        if cond.get("neg"):
            val = not val
        return val
    return label


def is_try_switch(body, cond):
    """The switch tests the result of a `?` (Try::branch): error plumbing, not a data-dependent guard."""
    if cond.get("kind") != "variant":
        return False
    l = cond["place"]["l"]
    if cond["place"]["p"]:
        return False
    for bb, t in body.calls():
        d = t.get("dest")
        if d and d["l"] == l and not d["p"] and callee_decl(t).endswith("Try::branch"):
            return True
    return False


def is_next_switch(body, cond):
    """The switch tests the Option returned by Iterator::next (loop iteration plumbing)."""
    if cond.get("kind") != "variant" or cond["place"]["p"]:
        return False
    l = cond["place"]["l"]
    for bb, t in body.calls():
        d = t.get("dest")
        if d and d["l"] == l and not d["p"] and callee_decl(t).endswith("Iterator::next"):
            return True
    return False


def _decision_key(body, bb):
    """Identity of the boolean a switch tests, when it is a value computed once per invocation (its defining
    block is outside every loop): the single tracer origin of the discriminant."""
    t = body.blocks[bb].term
    if t.get("discr_ty") != "bool":
        return None
    origins = tracer(body).operand(t["discr"])
    if len(origins) != 1:
        return None
    o = next(iter(origins))
    if o.kind == "call" and not o.path and not body.loops_containing(o.data):
        return ("call", o.data)
    if o.kind == "stmt" and not o.path and not body.loops_containing(o.data[0]):
        rv = body.blocks[o.data[0]].stmts[o.data[1]]["rvalue"]
        if rv["rv"] == "un" and rv["op"] == "Not":
            return None
        return ("stmt",) + tuple(o.data)
    return None


def _guards_debug_assert(body, sbb):
    """The switch is the test of a `debug_assert*!`: one of its edges leads straight into the macro's panic."""
    for (t, lab) in body.succ[sbb]:
        x = t
        for _ in range(3):
            term = body.blocks[x].term
            ms = term.get("macros") or []
            if term["t"] == "call" and term.get("target") is None and any(m.startswith("debug_assert") for m in ms):
                return True
            nxt = body.succ[x]
            if len(nxt) != 1:
                break
            x = nxt[0][0]
    return False


def required_outcomes(facts, body, target_bb, include_debug=False, skip_try=True):
    """For every switch that constrains reaching `target_bb`: (switch_bb, cond, set(outcomes)): every feasible path from
    the entry to target_bb leaves that switch through one of `outcomes`. Feasibility treats switches that test the same
    once-computed boolean consistently (correlated branches), so `if flag {..}` ... `if flag {..}` does not create
    spurious paths."""
    import itertools
    switches = []
    groups = {}
    for b in body.blocks:
        if b.cleanup or b.idx not in body.reach or b.term["t"] != "switch" or b.idx == target_bb or len(body.succ[b.idx]) < 2:
            continue
        switches.append(b.idx)
        k = _decision_key(body, b.idx)
        if k is not None:
            groups.setdefault(k, []).append(b.idx)
    groups = {k: v for k, v in groups.items() if len(v) >= 2}
    gkeys = sorted(groups, key=str)[:4]
    conds = {}

    def cond_of(sbb):
        if sbb not in conds:
            conds[sbb] = switch_cond(body, sbb)
        return conds[sbb]

    removed_for = []
    for values in itertools.product((True, False), repeat=len(gkeys)):
        removed = []
        for k, v in zip(gkeys, values):
            for sbb in groups[k]:
                c = cond_of(sbb)
                for (t, lab) in body.succ[sbb]:
                    if edge_outcome(facts, body, sbb, lab, c) is not v:
                        removed.append((sbb, t, lab))
        if body.reachable_avoiding(target_bb, removed):
            removed_for.append((values, removed))
    if not removed_for:
        removed_for = [((), [])]
    grouped = {sbb for k in gkeys for sbb in groups[k]}
    res = []

    def keep(sbb, cond):
        if not include_debug and (is_debug_only(body.blocks[sbb].term) or cond.get("debug_only") or _guards_debug_assert(body, sbb)):
            return False
        if skip_try and is_try_switch(body, cond):
            return False
        return True

    for sbb in switches:
        if sbb in grouped:
            continue
        edges = body.succ[sbb]
        all_edges = [(sbb, t, lab) for (t, lab) in edges]
        # a feasible path that bypasses the switch altogether?
        if any(body.reachable_avoiding(target_bb, rem + all_edges) for (_, rem) in removed_for):
            continue
        allowed = []
        for (t, lab) in edges:
            others = [e for e in all_edges if e != (sbb, t, lab)]
            if any(body.reachable_avoiding(target_bb, rem + others) for (_, rem) in removed_for):
                allowed.append(lab)
        if len(allowed) < len(edges):
            cond = cond_of(sbb)
            if not keep(sbb, cond):
                continue
            outs = set()
            for lab in allowed:
                o = edge_outcome(facts, body, sbb, lab, cond)
                if isinstance(o, tuple):
                    outs |= set(o)
                else:
                    outs.add(o)
            res.append((sbb, cond, outs))
    for i, k in enumerate(gkeys):
        vals = {values[i] for (values, _) in removed_for if values}
        if len(vals) == 1:
            sbb = groups[k][0]
            # only report when the group actually lies on the way (some member can reach the target)
            cond = cond_of(sbb)
            if keep(sbb, cond) and any(body.reachable_avoiding(target_bb, (), start=m) for m in groups[k]):
                res.append((sbb, cond, {next(iter(vals))}))
    res.sort(key=lambda x: x[0])
    return res


def cmp_facts(cond, outcome):
    """For a cmp condition and a boolean outcome, the relation that holds: (rel, a, b) canonicalised so
    that rel is one of '<', '<=', '==', '!='."""
    rel = cond["rel"]
    if outcome is False:
        rel = NEGATE[rel]
    a, b = cond["a"], cond["b"]
    if rel in (">", ">="):
        rel = SWAP[rel]
        a, b = b, a
    return rel, a, b


# ------------------------------------------------------------------- printing
def fmt_place(body, pl):
    nm = body.local_name(pl["l"])
    s = "_%d" % pl["l"] + ("{%s}" % nm if nm else "")
    for e in pl["p"]:
        if e == "deref":
            s = "(*%s)" % s
        elif isinstance(e, str):
            s += "." + e
        elif "f" in e:
            s += "." + str(e.get("name", e["f"]))
        elif "downcast" in e:
            s += " as %s" % e["downcast"]
        elif "index" in e:
            s += "[_%d]" % e["index"]
        elif "constindex" in e:
            s += "[%d]" % e["constindex"]
    return s


def fmt_op(body, op):
    if op.get("k") == "const":
        if "fndef" in op:
            return "fn " + short(op.get("resolved") or op["fndef"])
        if "val" in op:
            return "%s_%s" % (op["val"], op["ty"])
        if "promoted" in op:
            return "promoted[%d]" % op["promoted"]
        if "str" in op:
            return op["str"]
        return "const<%s>" % short(op["ty"])[:60]
    pl = op_place(op)
    if pl is None:
        return op.get("dbg", "?")
    return ("move " if op["k"] == "move" else "") + fmt_place(body, pl)


def fmt_rvalue(body, rv):
    k = rv["rv"]
    if k == "use":
        return fmt_op(body, rv["op"])
    if k == "ref":
        return ("&mut " if rv["mut"] else "&") + fmt_place(body, rv["place"])
    if k == "rawptr":
        return "&raw " + fmt_place(body, rv["place"])
    if k == "cast":
        return "%s as %s [%s]" % (fmt_op(body, rv["op"]), short(rv["ty"])[:50], rv["kind"])
    if k == "bin":
        return "%s(%s, %s)" % (rv["op"], fmt_op(body, rv["a"]), fmt_op(body, rv["b"]))
    if k == "un":
        return "%s(%s)" % (rv["op"], fmt_op(body, rv["a"]))
    if k == "discr":
        return "discr(%s)" % fmt_place(body, rv["place"])
    if k == "agg":
        what = rv["kind"]
        if what == "adt":
            what = short(rv["adt"]) + "::" + rv["variant"]
        elif what == "closure":
            what = "closure " + short(rv["closure"])
        return "%s{%s}" % (what, ", ".join(fmt_op(body, o) for o in rv["ops"]))
    if k == "repeat":
        return "[%s; %s]" % (fmt_op(body, rv["op"]), rv["n"])
    return rv.get("dbg", k)


def dump(body, out=None):
    import sys
    out = out or sys.stdout
    out.write("fn %s  [%s, vis=%s, %s]\n" % (body.path, body.kind, body.vis, body.span))
    for i, l in enumerate(body.locals):
        if l.get("name") or i <= body.arg_count:
            out.write("   _%d %s: %s\n" % (i, l.get("name", ""), short(l["ty"])[:140]))
    for b in body.blocks:
        if b.cleanup or b.idx not in body.reach:
            continue
        out.write(" bb%d:\n" % b.idx)
        for s in b.stmts:
            if s["s"] == "assign":
                m = " #" + ",".join(s["macros"]) if s.get("macros") else ""
                out.write("    %s = %s%s\n" % (fmt_place(body, s["place"]), fmt_rvalue(body, s["rvalue"]), m))
            else:
                out.write("    %s\n" % s)
        t = b.term
        m = " #" + ",".join(t["macros"]) if t.get("macros") else ""
        line = t.get("span", "").rsplit(":", 1)[-1]
        if t["t"] in ("call", "tailcall"):
            c = t["callee"]
            if "indirect" in c:
                name = "INDIRECT(%s)" % fmt_op(body, c["indirect"])
            else:
                name = short(c.get("resolved") or c["path"])
                if c.get("args"):
                    name += " <" + ", ".join(short(a)[:50] for a in c["args"] if not a.startswith("'")) + ">"
            out.write("    %s = CALL %s(%s) -> bb%s  @%s%s\n" % (
                fmt_place(body, t["dest"]) if "dest" in t else "_", name,
                ", ".join(fmt_op(body, a) for a in t["args"]), t.get("target"), line, m))
        elif t["t"] == "switch":
            out.write("    SWITCH %s [%s, else->bb%d]  @%s%s\n" % (
                fmt_op(body, t["discr"]), ", ".join("%s->bb%d" % (v, tb) for v, tb in t["targets"]), t["otherwise"], line, m))
        elif t["t"] == "assert":
            out.write("    ASSERT %s==%s %s(%s) -> bb%d  @%s%s\n" % (
                fmt_op(body, t["cond"]), t["expected"], t["kind"], ", ".join(fmt_op(body, o) for o in t["ops"]), t["target"], line, m))
        elif t["t"] in ("goto",):
            out.write("    GOTO bb%d\n" % t["target"])
        elif t["t"] == "drop":
            out.write("    DROP %s -> bb%d\n" % (fmt_place(body, t["place"]), t["target"]))
        else:
            out.write("    %s\n" % t["t"].upper())


def deep_origins(body, op, _depth=0, _seen=None):
    """Data-dependence closure: like Tracer.operand but descends through binary/unary operations,
    non-transparent casts and aggregates, returning the leaf origins (calls, params, constants)."""
    tr = tracer(body)
    _seen = _seen if _seen is not None else set()
    out = set()
    for o in tr.operand(op):
        if o.kind == "stmt":
            if o.data in _seen or _depth > 12:
                continue
            _seen.add(o.data)
            s = body.blocks[o.data[0]].stmts[o.data[1]]
            rv = s["rvalue"]
            subs = []
            if rv["rv"] == "bin":
                subs = [rv["a"], rv["b"]]
            elif rv["rv"] == "un":
                subs = [rv["a"]]
            elif rv["rv"] in ("cast", "repeat"):
                subs = [rv["op"]]
            elif rv["rv"] == "agg":
                subs = rv["ops"]
            elif rv["rv"] == "discr":
                subs = [{"k": "copy", "place": rv["place"]}]
            if not subs:
                out.add(o)
            for sop in subs:
                out |= deep_origins(body, sop, _depth + 1, _seen)
        else:
            out.add(o)
    return out


def ops_between(body, op, _depth=0, _seen=None):
    """Names of the binary/unary operations on the data-dependence paths of `op` (for diagnostics/rules)."""
    tr = tracer(body)
    _seen = _seen if _seen is not None else set()
    out = set()
    for o in tr.operand(op):
        if o.kind == "stmt" and o.data not in _seen and _depth <= 12:
            _seen.add(o.data)
            rv = body.blocks[o.data[0]].stmts[o.data[1]]["rvalue"]
            if rv["rv"] == "bin":
                out.add(rv["op"])
                out |= ops_between(body, rv["a"], _depth + 1, _seen) | ops_between(body, rv["b"], _depth + 1, _seen)
            elif rv["rv"] == "un":
                out.add(rv["op"])
                out |= ops_between(body, rv["a"], _depth + 1, _seen)
            elif rv["rv"] == "cast":
                out |= ops_between(body, rv["op"], _depth + 1, _seen)
    return out


def dep_closure(body, op, max_nodes=4000):
    """Over-approximate data dependence: every origin the operand's value may be computed from, following
    statements (all operands), calls (the call itself *and* all its arguments) and closure captures."""
    tr = tracer(body, follow_next=False)
    seen = set()
    work = list(tr.operand(op))
    while work and len(seen) < max_nodes:
        o = work.pop()
        key = (o.kind, o.data)
        if key in seen:
            continue
        seen.add(key)
        if o.kind == "stmt":
            rv = body.blocks[o.data[0]].stmts[o.data[1]]["rvalue"]
            subs = []
            k = rv["rv"]
            if k == "bin":
                subs = [rv["a"], rv["b"]]
            elif k == "un":
                subs = [rv["a"]]
            elif k in ("cast", "repeat", "use"):
                subs = [rv["op"]]
            elif k == "agg":
                subs = rv["ops"]
            elif k in ("discr", "ref", "rawptr"):
                subs = [{"k": "copy", "place": rv["place"]}]
            for s in subs:
                work.extend(tr.operand(s))
        elif o.kind == "call":
            t = body.blocks[o.data].term
            for a in t.get("args", []):
                work.extend(tr.operand(a))
    return seen


def origin_keys(body, op):
    return {(o.kind, o.data) for o in tracer(body).operand(op)}


def closure_env_map(F, closure_body):
    """For a closure body: env field index -> (parent_body, operand captured at creation)."""
    parent = F.fns.get(closure_body.j.get("closure_parent", "")) or F.fns.get(closure_body.j.get("closure_root", ""))
    if parent is None:
        return {}
    for bb, i, s in parent.statements():
        if s["s"] == "assign" and s["rvalue"]["rv"] == "agg" and s["rvalue"]["kind"] == "closure" \
                and s["rvalue"]["closure"] == closure_body.path:
            return {idx: (parent, op) for idx, op in enumerate(s["rvalue"]["ops"])}
    return {}


def resolve_through_closure(F, body, origins):
    """Maps origins rooted at a closure's environment (param 1, first path element = captured field) to the
    origins of the captured operand in the creating function, keeping the rest of the path.
    Returns set of (body, Origin)."""
    out = set()
    env = None
    for o in origins:
        if body.kind == "Closure" and o.kind == "param" and o.data == 1 and o.path and o.path[0][0] == "f":
            env = env if env is not None else closure_env_map(F, body)
            cap = env.get(o.path[0][1])
            if cap:
                pb, op = cap
                for po in tracer(pb).operand(op, o.path[1:]):
                    out |= resolve_through_closure(F, pb, {po})
                continue
        out.add((body, o))
    return out


def deps_with_env(F, body, op, _depth=0):
    """dep_closure extended through closure captures: set of (body path, kind, data)."""
    d = dep_closure(body, op)
    out = {(body.path, k, x) for (k, x) in d}
    if body.kind == "Closure" and ("param", 1) in d and _depth < 4:
        for idx, (pb, cop) in closure_env_map(F, body).items():
            out |= deps_with_env(F, pb, cop, _depth + 1)
    return out


def next_sources(F, body, op):
    """(body path, bb) of the Iterator::next calls the operand's value depends on (through closure captures)."""
    out = set()
    for (p, k, x) in deps_with_env(F, body, op):
        if k == "call":
            b = F.fns.get(p)
            if b is not None and callee_decl(b.blocks[x].term).endswith("Iterator::next"):
                out.add((p, x))
    return out


def named_const(body, op):
    """Path of the named constant an operand refers to (directly or through a promoted), e.g. `...::SERVER`."""
    tr = tracer(body)
    for o in tr.operand(op):
        if o.kind != "const":
            continue
        if o.data[0] == "uneval":
            return o.data[1]
        if o.data[0] == "promoted" and o.data[1] < len(body.promoted):
            pb = body.promoted[o.data[1]]
            for _, _, s in pb.statements():
                if s["s"] == "assign" and s["rvalue"]["rv"] == "use" and s["rvalue"]["op"].get("unevaluated"):
                    return s["rvalue"]["op"]["unevaluated"]
    return None


def promoted_variant(body, op, adt_suffix=None):
    """Variant name of an enum constant an operand refers to (directly built or through a promoted)."""
    tr = tracer(body)
    for o in tr.operand(op):
        if o.kind == "const" and o.data[0] == "promoted" and o.data[1] < len(body.promoted):
            pb = body.promoted[o.data[1]]
            for _, _, s in pb.statements():
                if s["s"] == "assign" and s["rvalue"]["rv"] == "agg" and s["rvalue"]["kind"] == "adt":
                    if adt_suffix is None or s["rvalue"]["adt"].endswith(adt_suffix):
                        return s["rvalue"]["variant"]
        if o.kind == "stmt":
            rv = body.blocks[o.data[0]].stmts[o.data[1]]["rvalue"]
            if rv["rv"] == "agg" and rv["kind"] == "adt" and (adt_suffix is None or rv["adt"].endswith(adt_suffix)):
                return rv["variant"]
    return None
