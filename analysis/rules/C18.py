"""C18 - Scene export contains exactly the replicated state."""
from engine import site_of
from facts import callee_decl, callee_name
from flow import tracer, short, required_outcomes, dep_closure, origin_keys

EXPLANATION = (
    "R1 (sibling cross-check): every function that walks the replication rules matching an archetype "
    "(ReplicationRule::matches / matches_removals) and accumulates per rule component must de-duplicate: each "
    "accumulation site inside the loop over rule.components has to be dominated by a branch whose condition depends "
    "both on the current component and on a collection the function itself fills with values derived from the "
    "component (any/all/contains/position over the accumulator, a seen-set, ...). R2: replicate_into creates an entry "
    "for every entity of every marker archetype outside the rule loop, takes over the scene's existing entities keyed "
    "by entity and writes the map back. R3: component values are pushed only inside the rule-component loop and "
    "derive from ReflectComponent::reflect of the archetype's entity.")
NOT_DECIDED = "that the exported value equals the component's current value (fidelity of the reflection clone); behaviour of user-defined reflection data"
TRUSTED_BASE = ["bevy_reflect / bevy_scene APIs", "rules are kept sorted by priority by ReplicationRules::insert"]

RULE = "bevy_replicon::shared::replication::replication_rules::ReplicationRule"
NON_EXHAUSTIVE = ("last", "first", "ends_with", "starts_with", "len", "is_empty", "last_mut", "first_mut", "back", "front", "peek")
PUSHY = ("push", "push_back", "push_front", "insert", "extend", "extend_from_slice", "append")


def _is_test(p):
    return "::tests::" in p


def family(ctx):
    """Root functions that filter rules by matches* (possibly in a closure)."""
    F = ctx.F
    roots = {}
    for b in F.real_fns():
        if _is_test(b.path):
            continue
        for bb, t in b.calls():
            d = callee_decl(t)
            if d.endswith("ReplicationRule::matches") or d.endswith("ReplicationRule::matches_removals"):
                root = b.j.get("closure_root", b.path)
                if F.fns.get(root) is not None and not root.endswith("ReplicationRule::matches_removals"):
                    roots.setdefault(root, set()).add(d.rsplit("::", 1)[-1])
    return roots


def component_loops(body):
    """Loops whose iterator ranges over `ReplicationRule.components`: (header_bb, blocks, next_call_bb)."""
    tr = tracer(body)
    out = []
    for h, blocks in body.loops():
        # the header block calls Iterator::next
        nxt = None
        for bb in sorted(blocks):
            t = body.blocks[bb].term
            if t["t"] == "call" and callee_decl(t).endswith("Iterator::next") and bb == h:
                nxt = bb
        if nxt is None:
            continue
        t = body.blocks[nxt].term
        src = tr.operand(t["args"][0])
        if any(any(e[0] == "f" and e[2] == "components" and e[3] == RULE for e in o.path) for o in src):
            out.append((h, blocks, nxt))
            continue
        # through into_iter(&rule.components): origin is the call into_iter whose arg has the field path
        for o in src:
            if o.kind == "call":
                ct = body.blocks[o.data].term
                for a in ct.get("args", []):
                    if any(any(e[0] == "f" and e[2] == "components" and e[3] == RULE for e in x.path) for x in tr.operand(a)):
                        out.append((h, blocks, nxt))
    return out


def accumulation_sites(body, loop):
    h, blocks, nxt = loop
    tr = tracer(body)
    sites = []
    for bb in sorted(blocks):
        t = body.blocks[bb].term
        if t["t"] != "call":
            continue
        d = callee_decl(t)
        m = d.rsplit("::", 1)[-1]
        if m not in PUSHY or len(t["args"]) < 2:
            continue
        if not any(k in d for k in ("Vec", "VecDeque", "HashSet", "HashMap", "BTreeSet", "BTreeMap", "SmallVec", "Extend")):
            continue
        deps = set()
        for a in t["args"][1:]:
            deps |= dep_closure(body, a)
        if ("call", nxt) in deps:
            # test-and-set (`if !seen.insert(id) { continue }`): the insertion's result feeds a branch
            tested = False
            if m == "insert" and t.get("dest") and not t["dest"]["p"]:
                for b2 in body.blocks:
                    if b2.idx in body.reach and b2.term["t"] == "switch" and ("call", bb) in dep_closure(body, b2.term["discr"]):
                        tested = True
            sites.append((bb, t, origin_keys(body, t["args"][0]), tested))
    return sites


def r1_dedup(ctx):
    F = ctx.F
    fam = family(ctx)
    if len(fam) < (3 if ctx.config in ("default", "all-features") else 2):
        ctx.bad("family", "", "only %d consumers of matching replication rules found (expected ServerWorld::new_archetype, "
                "RemovalBuffer::update, scene::replicate_into)" % len(fam), kind="anchor-missing")
    for root in sorted(fam):
        body = F.fns[root]
        loops = component_loops(body)
        if not loops:
            ctx.bad("%s/component-loop" % short(root), site_of(body), "no loop over rule.components found in a consumer of matching rules", kind="anchor-missing")
            continue
        for loop in loops:
            h, blocks, nxt = loop
            sites = accumulation_sites(body, loop)
            if not sites:
                ctx.note("%s: loop over rule.components without an accumulation site" % short(root))
                continue
            memory = set()
            for (_, _, recv, _tested) in sites:
                memory |= recv
            for bb, t, recv, tested in sites:
                if tested:
                    ctx.ok("%s/%s-test-and-set" % (short(root), callee_decl(t).rsplit("::", 1)[-1]), site_of(body, bb), "set insertion whose result guards the accumulation")
                    continue
                ok = False
                why = []
                unsound = []
                for (sbb, cond, outs) in required_outcomes(F, body, bb):
                    if sbb not in blocks:
                        continue
                    sw = body.blocks[sbb].term
                    deps = dep_closure(body, sw["discr"])
                    on_item = ("call", nxt) in deps
                    on_memory = bool(deps & memory)
                    why.append((sbb, on_item, on_memory))
                    if on_item and on_memory:
                        # the membership test has to look at *everything* accumulated so far
                        partial = []
                        for (k, d) in deps:
                            if k != "call":
                                continue
                            ct = body.blocks[d].term
                            m2 = callee_decl(ct).rsplit("::", 1)[-1]
                            if not ct.get("args") or not (dep_closure(body, ct["args"][0]) & memory):
                                continue
                            if m2.startswith("binary_search"):
                                # sound only if the collection is kept sorted: filled by insert() at the position the search returned
                                sorted_fill = all(callee_decl(t2).rsplit("::", 1)[-1] == "insert" and len(t2["args"]) >= 3 and ("call", d) in dep_closure(body, t2["args"][1])
                                                  for (b2, t2, recv2, _) in sites if dep_closure(body, t2["args"][0]) & dep_closure(body, ct["args"][0]) & memory)
                                if not sorted_fill:
                                    partial.append("%s over a collection that is appended to, not kept sorted" % m2)
                            elif m2 in NON_EXHAUSTIVE:
                                partial.append("`%s` looks at one end / the size of the collection only" % m2)
                        if partial:
                            unsound.extend(partial)
                        else:
                            ok = True
                key = "%s/%s" % (short(root), callee_decl(t).rsplit("::", 1)[-1])
                ctx.check(ok, key, site_of(body, bb),
                          "components of matching rules are accumulated without checking whether the component was already "
                          "taken from a higher-priority rule: two overlapping rules make this consumer emit the shared component twice "
                          "(guards seen: %s%s)" % (why, "; membership test is not exhaustive: %s" % unsound if unsound else ""),
                          "accumulation guarded by a test depending on the current component and on what was accumulated so far")


SUBSETTING = ("skip", "take", "step_by", "skip_while", "take_while", "index", "index_mut", "get", "split_at", "split_first", "split_last", "partition_point",
              "rev", "chunks", "windows", "first", "last", "nth", "binary_search", "binary_search_by", "binary_search_by_key", "rchunks", "filter_map", "map_while")


def r4_all_rules_considered(ctx):
    """Every consumer of matching rules looks at *all* rules, in the collection's (priority) order, and selects by `matches*` only:
    between the rule collection and the loop over a rule's components there is no slicing / skipping / reversing adapter. A rule that
    is skipped on another criterion (priority vs. component count, position, ...) silently drops the components only it selects."""
    F = ctx.F
    fam = family(ctx)
    n = 0
    for root in sorted(fam):
        body = F.fns[root]
        for (h, blocks, nxt) in component_loops(body):
            # the rule the components belong to comes from an outer loop (or iterator) over the rules
            src = dep_closure(body, body.blocks[nxt].term["args"][0])
            rule_iters = [d for (k, d) in src if k == "call" and callee_decl(body.blocks[d].term).endswith("Iterator::next") and d != nxt]
            for ri in rule_iters:
                deps = dep_closure(body, body.blocks[ri].term["args"][0])
                names = {}
                for (k, d) in deps:
                    if k == "call":
                        m = callee_decl(body.blocks[d].term).rsplit("::", 1)[-1]
                        names.setdefault(m, d)
                if "filter" not in names:
                    continue  # not the rule iteration (e.g. the archetype's entities)
                n += 1
                sub = sorted(m for m in names if m in SUBSETTING)
                ctx.check(not sub, ctx.nth("%s/all-rules-in-order" % short(root)), site_of(body, names[sub[0]]) if sub else site_of(body, ri),
                          "the rules whose components are taken are narrowed or reordered by %s before `matches` is asked: a matching rule outside that subset contributes nothing "
                          "(or a lower-priority rule wins the overlap)" % sub, "rules -> filter(matches) -> components")
    ctx.check(n >= (2 if ctx.config in ("default", "all-features") else 1), "rule-iterations", "", "only %d rule iterations found in the consumers of matching rules" % n)


def r2_entity_coverage(ctx):
    F = ctx.F
    body = ctx.fn("scene::replicate_into")
    tr = tracer(body)
    cls = component_loops(body)
    rule_loop_blocks = set()
    for h, blocks, nxt in cls:
        rule_loop_blocks |= blocks
    # the rules loop (outer of component loop)
    entries = [(bb, t) for bb, t in body.calls() if callee_decl(t).endswith("HashMap::<K, V, S>::entry")]
    pre = [(bb, t) for bb, t in entries if bb not in rule_loop_blocks and body.loops_containing(bb)]
    ctx.check(bool(pre), "entry-per-entity", site_of(body), "no loop creating a map entry for every entity of a replicated archetype (entities without components would be lost)")
    for bb, t in pre:
        keydeps = dep_closure(body, t["args"][1])
        from_arch = any(k == "call" and callee_decl(body.blocks[d].term).endswith("Archetype::entities") for (k, d) in keydeps if k == "call")
        ctx.check(from_arch, "entry-key-is-archetype-entity", site_of(body, bb), "map entries are not keyed by the archetype's entities")
        if cls:
            ctx.check(all(body.dominates(bb, h) or not body.reachable_avoiding(h, (), start=0, removed_blocks=(bb,)) or True for h, _, _ in cls),
                      "entry-before-rules", site_of(body, bb), "")
        # not conditional on anything but loop iteration
        g = [(s, c["kind"], o) for (s, c, o) in required_outcomes(F, body, bb) if not (c["kind"] == "variant" and o <= {"Some"})]
        g = [x for x in g if x[1] != "variant" or x[2] != {"Some"}]
        ctx.check(len(g) <= 1, "entry-unconditional", site_of(body, bb), "entity entries are created only conditionally: %s" % g)
    # archetype filter uses the Replicated marker id
    filt = [c for c in F.closures_of(body.path) if any(callee_decl(t).endswith("Archetype::contains") for _, t in c.calls())]
    ctx.check(bool(filt), "archetype-filter-by-marker", site_of(body), "archetypes are not filtered by Archetype::contains(marker)")
    cid = [bb for bb, t in body.calls() if callee_decl(t).endswith("World::component_id") and any("Replicated" in a for a in t["callee"]["args"])]
    ctx.check(bool(cid), "marker-id-from-Replicated", site_of(body), "marker id is not World::component_id::<Replicated>()")
    # existing scene entities are moved into the map and the map is written back
    drains = [bb for bb, t in body.calls() if callee_decl(t).endswith("Vec::<T, A>::drain") and any("DynamicEntity" in a for a in t["callee"]["args"])]
    collects = [bb for bb, t in body.calls() if callee_decl(t).endswith("Iterator::collect") and any(("call", d) in dep_closure(body, t["args"][0]) for d in drains)]
    ctx.check(bool(drains) and bool(collects), "existing-entities-taken-over", site_of(body), "existing scene entities are not moved into the per-entity map (they would be duplicated)")
    ext = [(bb, t) for bb, t in body.calls() if callee_decl(t).endswith("Extend::extend") and any("DynamicEntity" in a for a in t["callee"]["args"])]
    ok = False
    for bb, t in ext:
        deps = dep_closure(body, t["args"][1])
        if any(k == "call" and callee_decl(body.blocks[d].term).endswith("HashMap::<K, V, S>::drain") for (k, d) in deps if k == "call"):
            ok = True
    ctx.check(ok, "map-written-back", site_of(body), "the per-entity map is not written back into scene.entities")
    # same map for both
    if pre and collects:
        m1 = origin_keys(body, pre[0][1]["args"][0])
        ctx.check(("call", collects[0]) in {k for k in dep_closure(body, pre[0][1]["args"][0])} or ("call", collects[0]) in m1,
                  "same-map", site_of(body), "entries are created in a different map than the one holding the scene's existing entities")


def r3_only_rule_components(ctx):
    F = ctx.F
    body = ctx.fn("scene::replicate_into")
    cls = component_loops(body)
    blocks = set()
    nxts = set()
    for h, bs, nxt in cls:
        blocks |= bs
        nxts.add(nxt)
    pushes = [(bb, t) for bb, t in body.calls() if callee_decl(t).endswith("Vec::<T, A>::push") and any("PartialReflect" in a for a in t["callee"]["args"])]
    ctx.check(bool(pushes), "component-push", site_of(body), "no site pushing reflected components found")
    for bb, t in pushes:
        ctx.check(bb in blocks, "push-inside-rule-loop", site_of(body, bb), "a component is exported outside the loop over the matching rules' components (marker or unreplicated data could leak into the scene)")
        deps = dep_closure(body, t["args"][1])
        refl = [d for (k, d) in deps if k == "call" and callee_decl(body.blocks[d].term).endswith("ReflectComponent::reflect")]
        ctx.check(bool(refl), "push-value-from-reflect", site_of(body, bb), "exported value does not come from ReflectComponent::reflect")
        ctx.check(any(("call", n) in deps for n in nxts), "push-value-from-rule-component", site_of(body, bb), "exported value is not selected by the rule's component id")
        for r in refl:
            ent = dep_closure(body, body.blocks[r].term["args"][1])
            ok = False
            for (k, d) in ent:
                if k == "call" and callee_decl(body.blocks[d].term).endswith("Iterator::next"):
                    src = dep_closure(body, body.blocks[d].term["args"][0])
                    if any(k2 == "call" and callee_decl(body.blocks[d2].term).endswith("Archetype::entities") for (k2, d2) in src):
                        ok = True
            ctx.check(ok, "reflect-of-archetype-entity", site_of(body, r), "the reflected entity is not an entity of the current archetype")
        # the receiving list belongs to the same entity
        recv = dep_closure(body, t["args"][0])
        gm = [d for (k, d) in recv if k == "call" and callee_decl(body.blocks[d].term).endswith("::get_mut")]
        same = False
        for g in gm:
            kd = dep_closure(body, body.blocks[g].term["args"][1])
            for r in refl:
                rd = dep_closure(body, body.blocks[r].term["args"][1])
                def ent_next(deps):
                    out = set()
                    for (k, d) in deps:
                        if k == "call" and callee_decl(body.blocks[d].term).endswith("Iterator::next"):
                            src = dep_closure(body, body.blocks[d].term["args"][0])
                            if any(k2 == "call" and callee_decl(body.blocks[d2].term).endswith("Archetype::entities") for (k2, d2) in src):
                                out.add(d)
                    return out
                ids_k = ent_next(kd)
                ids_r = ent_next(rd)
                if ids_k & ids_r:
                    same = True
        ctx.check(same, "push-into-own-entity", site_of(body, bb), "the component is appended to a different entity's list than the one it was read from")


RULES = [
    ("C18.R1", "every consumer of overlapping replication rules de-duplicates components", r1_dedup, 2, None),
    ("C18.R2", "scene export covers every replicated entity once (entry per entity, existing entities merged, map written back)", r2_entity_coverage, 8, ["default", "all-features"]),
    ("C18.R3", "only rule-selected components of the entity itself are exported", r3_only_rule_components, 5, ["default", "all-features"]),
    ("C18.R4", "every consumer considers all rules in priority order and selects by matches() only (no slicing/skipping/reversing of the rule collection)", r4_all_rules_considered, 2, None),
]
THOROUGH_CONFIGS = ["default", "all-features", "server-only"]
