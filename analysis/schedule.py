"""A7: recovery of schedule / observer / required-component registrations from the MIR of
Plugin::{build,finish} and the *AppExt methods."""
from facts import callee_decl, callee_name, op_place
from flow import tracer, required_outcomes, short

MODS = ("run_if", "in_set", "after", "before", "chain", "ambiguous_with", "ambiguous_with_all", "distributive_run_if",
        "after_ignore_deferred", "before_ignore_deferred", "chain_ignore_deferred")


def _const_fn(op):
    if op.get("k") == "const" and "fndef" in op:
        return {"kind": "fn", "path": op.get("resolved") or op["fndef"], "args": op.get("args", [])}
    return None


def parse_expr(F, body, op, depth=0):
    c = _const_fn(op)
    if c:
        return c
    if op.get("k") == "const":
        return {"kind": "const", "ty": op.get("ty")}
    if depth > 25:
        return {"kind": "unknown"}
    tr = tracer(body)
    origins = [o for o in tr.operand(op)]
    nodes = []
    for o in origins:
        if o.path:
            nodes.append({"kind": "unknown", "why": "projection"})
            continue
        if o.kind == "const":
            if o.data[0] == "fn":
                nodes.append({"kind": "fn", "path": o.data[1], "args": list(o.data[2])})
            else:
                nodes.append({"kind": "const", "data": o.data})
        elif o.kind == "stmt":
            rv = body.blocks[o.data[0]].stmts[o.data[1]]["rvalue"]
            if rv["rv"] == "agg" and rv["kind"] == "tuple":
                nodes.append({"kind": "tuple", "items": [parse_expr(F, body, x, depth + 1) for x in rv["ops"]]})
            elif rv["rv"] == "agg" and rv["kind"] == "adt":
                nodes.append({"kind": "value", "adt": rv["adt"], "variant": rv["variant"],
                              "items": [parse_expr(F, body, x, depth + 1) for x in rv["ops"]]})
            elif rv["rv"] == "agg" and rv["kind"] == "closure":
                nodes.append({"kind": "fn", "path": rv["closure"], "args": [], "closure": True})
            elif rv["rv"] == "cast":
                nodes.append(parse_expr(F, body, rv["op"], depth + 1))
            else:
                nodes.append({"kind": "unknown", "why": rv["rv"]})
        elif o.kind == "call":
            t = body.blocks[o.data].term
            decl = callee_decl(t)
            last = decl.rsplit("::", 1)[-1]
            if "IntoScheduleConfigs" in decl and last in MODS:
                n = {"kind": "mod", "what": last, "inner": parse_expr(F, body, t["args"][0], depth + 1), "bb": o.data}
                if len(t["args"]) > 1:
                    n["arg"] = parse_expr(F, body, t["args"][1], depth + 1)
                nodes.append(n)
            elif last == "build_system":
                inner = parse_expr(F, body, t["args"][-1], depth + 1)
                inner = dict(inner)
                inner["built"] = True
                nodes.append(inner)
            elif last in ("and", "or", "nand", "nor", "xor", "xnor") and "Condition" in decl:
                nodes.append({"kind": "cond-" + last, "items": [parse_expr(F, body, a, depth + 1) for a in t["args"]]})
            elif last == "not" and "condition" in decl:
                nodes.append({"kind": "cond-not", "items": [parse_expr(F, body, a, depth + 1) for a in t["args"]]})
            else:
                name = callee_name(t)
                n = {"kind": "factory", "path": name, "gargs": t["callee"].get("args", []), "local": name in F.fns}
                nodes.append(n)
        elif o.kind == "param":
            nodes.append({"kind": "param", "index": o.data})
        else:
            nodes.append({"kind": "unknown"})
    if len(nodes) == 1:
        return nodes[0]
    return {"kind": "alt", "items": nodes}


def _cond_names(node):
    """Flat list of condition function paths in a run_if argument."""
    if node is None:
        return []
    k = node["kind"]
    if k == "fn":
        p = node["path"]
        if node.get("args"):
            a = [x for x in node["args"] if not x.startswith("'")]
            if a:
                p += "<" + ",".join(a) + ">"
        return [p]
    if k == "factory":
        return [node["path"]]
    if k.startswith("cond-"):
        out = []
        for it in node["items"]:
            out += [k[5:] + "(" + x + ")" for x in _cond_names(it)]
        return out
    if k in ("tuple", "alt"):
        out = []
        for it in node["items"]:
            out += _cond_names(it)
        return out
    return ["?" + k]


def _set_names(node):
    if node is None:
        return []
    if node["kind"] == "value":
        return [short(node["adt"]) + "::" + node["variant"]]
    if node["kind"] == "fn":
        return [node["path"]]
    if node["kind"] in ("tuple", "alt"):
        out = []
        for it in node["items"]:
            out += _set_names(it)
        return out
    return ["?" + node["kind"]]


class Entry(dict):
    __getattr__ = dict.get


def flatten(node, ctx=None, out=None, chain_ctx=None):
    """-> list of Entry for each leaf (system fn / set value) with accumulated modifiers."""
    ctx = ctx or {"run_if": [], "sets": [], "after": [], "before": [], "chains": []}
    out = out if out is not None else []
    k = node["kind"]
    if k == "mod":
        c = {kk: list(v) for kk, v in ctx.items()}
        w = node["what"]
        if w in ("run_if", "distributive_run_if"):
            c["run_if"] += _cond_names(node.get("arg"))
        elif w == "in_set":
            c["sets"] += _set_names(node.get("arg"))
        elif w.startswith("after"):
            c["after"] += _set_names(node.get("arg"))
        elif w.startswith("before"):
            c["before"] += _set_names(node.get("arg"))
        elif w.startswith("chain"):
            inner = node["inner"]
            if inner["kind"] == "tuple":
                cid = node.get("bb")
                for idx, it in enumerate(inner["items"]):
                    c2 = {kk: list(v) for kk, v in c.items()}
                    c2["chains"] = c["chains"] + [(cid, idx)]
                    flatten(it, c2, out)
                return out
        flatten(node["inner"], c, out)
    elif k in ("tuple", "alt"):
        for it in node["items"]:
            flatten(it, ctx, out)
    elif k == "fn":
        out.append(Entry(kind="system", path=node["path"], built=node.get("built", False), **{kk: list(v) for kk, v in ctx.items()}))
    elif k == "factory":
        out.append(Entry(kind="system", path=node["path"], factory=True, **{kk: list(v) for kk, v in ctx.items()}))
    elif k == "value":
        out.append(Entry(kind="set", path=short(node["adt"]) + "::" + node["variant"], **{kk: list(v) for kk, v in ctx.items()}))
    else:
        out.append(Entry(kind="unknown", path="?" + k, **{kk: list(v) for kk, v in ctx.items()}))
    return out


class Schedule:
    def __init__(self, F):
        self.F = F
        self.systems = []     # Entry: path, schedule, run_if, sets, after, before, chains, where, arm, bb
        self.set_configs = []  # Entry for configure_sets leaves
        self.observers = []   # Entry: handler, event, bundle, where, arm
        self.required = []    # (component, required, where, arm, how)
        self.resources = []   # (type, where)
        self.events = []
        self._scan()

    def _arm(self, body, bb):
        arms = []
        for (sbb, cond, outs) in required_outcomes(self.F, body, bb):
            if cond["kind"] == "variant":
                arms.append((cond.get("adt"), tuple(sorted(map(str, outs)))))
            elif cond["kind"] == "cmp":
                arms.append(("cmp", tuple(sorted(map(str, outs)))))
            elif cond["kind"] == "boolcall":
                arms.append((cond["name"], tuple(sorted(map(str, outs)))))
            elif cond["kind"] == "expr":
                arms.append(("expr", tuple(sorted(map(str, outs)))))
        return arms

    def _scan(self):
        F = self.F
        for body in F.real_fns():
            if "::tests::" in body.path or "test_app" in body.path:
                continue
            for bb, t in body.calls():
                decl = callee_decl(t)
                last = decl.rsplit("::", 1)[-1]
                if not (decl.startswith("bevy_app::app::App::") or decl.startswith("bevy_app::sub_app::SubApp::")
                        or decl.startswith("bevy_ecs::world::World::")):
                    continue
                gargs = [a for a in t["callee"].get("args", []) if not a.startswith("'")]
                if last == "add_systems":
                    tree = parse_expr(F, body, t["args"][2])
                    sched = gargs[1] if len(gargs) > 1 else "?"
                    arm = self._arm(body, bb)
                    for e in flatten(tree):
                        e.update(schedule=sched, where=body.path, arm=arm, bb=bb)
                        self.systems.append(e)
                elif last == "configure_sets":
                    tree = parse_expr(F, body, t["args"][2])
                    sched = gargs[1] if len(gargs) > 1 else "?"
                    for e in flatten(tree):
                        e.update(schedule=sched, where=body.path, arm=self._arm(body, bb), bb=bb)
                        self.set_configs.append(e)
                elif last == "add_observer":
                    h = parse_expr(F, body, t["args"][1])
                    self.observers.append(Entry(handler=h.get("path", "?" + h["kind"]), event=gargs[0], bundle=gargs[1],
                                                where=body.path, arm=self._arm(body, bb), bb=bb))
                elif last.startswith("register_required_components") or last.startswith("try_register_required_components"):
                    self.required.append(Entry(component=gargs[0], required=gargs[1], where=body.path, arm=self._arm(body, bb), how=last, bb=bb))
                elif last in ("init_resource", "insert_resource"):
                    self.resources.append(Entry(type=gargs[0] if gargs else "?", where=body.path, how=last, arm=self._arm(body, bb), bb=bb))
                elif last == "add_event":
                    self.events.append(Entry(type=gargs[0] if gargs else "?", where=body.path, bb=bb))
        # #[require(..)] sets from derived Component impls
        for p, body in F.fns.items():
            if p.endswith("::register_required_components") and "bevy_ecs::component::Component" in (body.j.get("impl_trait") or ""):
                comp = body.j.get("impl_self")
                for bb, t in body.calls():
                    decl = callee_decl(t)
                    if "register_required_components_manual" in decl or "register_manual" in decl or "register_required" in decl:
                        gargs = [a for a in t["callee"].get("args", []) if not a.startswith("'")]
                        if len(gargs) >= 2:
                            self.required.append(Entry(component=gargs[0], required=gargs[1], where=p, arm=[], how="#[require]", bb=bb))

    # ------------------------------------------------------------- queries
    def system(self, suffix):
        return [e for e in self.systems if e["path"] == suffix or e["path"].endswith("::" + suffix)]

    def requires(self, component_suffix):
        return [r for r in self.required if r["component"].endswith(component_suffix)]


_cache = {}


def schedule(F):
    s = _cache.get(id(F))
    if s is None or s.F is not F:
        s = Schedule(F)
        _cache[id(F)] = s
    return s
