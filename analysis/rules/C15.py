"""C15 - Entity wire encoding is lossless and decoding is total.

Decided: decode totality (no panic edge), writer/reader field-sequence symmetry,
cursor discipline of the deserialisation flavor. Not decided: decode(encode(e)) == e."""
from engine import site_of
from facts import callee_decl, callee_name
from flow import cmp_facts, tracer, short, required_outcomes, deep_origins, switch_cond
import panics

EXPLANATION = (
    "R1: panic-edge analysis (as C06) over deserialize_entity and everything callable from it, source = the message "
    "parameter. R2: ordered (guard, type) sequences of postcard_utils::to_extend_mut::<T> in serialize_entity and "
    "from_buf::<T> in deserialize_entity must agree; the optional field's presence condition must be carried by the "
    "first field on both sides. R3: BufFlavor advances the cursor by exactly the count it hands out, under a "
    "remaining-length guard, and uses only total accessors. R4 (bit-width analysis, bitwidth.py): no shift or integer cast of the codec can drop a set bit "
    "(significant-bit bounds propagated through casts, shifts, or/and); writer and reader agree on the layout constants (index shift, flag mask, generation "
    "offset, default for an omitted generation).")
NOT_DECIDED = "round-trip equality as a value identity for every (index, generation) beyond the losslessness and constant agreement decided by R4 (e.g. a reader that swaps index and generation halves with matching constants)"
TRUSTED_BASE = ["postcard varint (de)serialisation of u32/u64/usize is total and symmetric", "bytes::Buf contract (remaining/chunk/advance)"]


def _is_test(p):
    return "::tests::" in p


def r1_totality(ctx):
    body = ctx.fn("shared::entity_serde::deserialize_entity")
    region = panics.close_region(ctx.F, [(body, None, "decoder")], (), _is_test)
    for p, (blocks, how) in sorted(region.items()):
        b = ctx.F.fns[p]
        edges = list(panics.panic_edges(b, blocks))
        if not edges:
            ctx.ok("%s/no-panic-edge" % short(p), site_of(b), "via %s" % how)
        for e in edges:
            ctx.bad("%s/%s" % (short(p), short(e["what"])), site_of(b, e["bb"]),
                    "decoding arbitrary bytes can panic here: %s %s" % (e["kind"], short(e["what"])))
        for bb, decl, size in panics.sized_allocations(b, blocks):
            ctx.check(panics.size_is_bounded(b, size), "%s/%s" % (short(p), short(decl)), site_of(b, bb),
                      "allocation sized by decoded data")


def _try_switch(body, cond):
    """The switch tests the result of a `?` (Try::branch) - error plumbing, not a data-dependent guard."""
    if cond["kind"] != "variant":
        return False
    l = cond["place"]["l"]
    for bb, t in body.calls():
        if t.get("dest", {}).get("l") == l and not t["dest"]["p"]:
            d = callee_decl(t)
            if d.endswith("Try::branch"):
                return True
    return False


def codec_sequence(F, body, callee_suffix):
    """[(bb, T, [guard conds])] in dominance/RPO order for calls to the codec primitive."""
    seq = []
    for bb in body.rpo:
        t = body.blocks[bb].term
        if t["t"] != "call" or not callee_decl(t).endswith(callee_suffix):
            continue
        targs = [a for a in t["callee"]["args"] if not a.startswith("'")]
        guards = [(sbb, cond, outs) for (sbb, cond, outs) in required_outcomes(F, body, bb) if not _try_switch(body, cond)]
        seq.append((bb, targs[0] if targs else "?", guards))
    return seq


def r2_symmetry(ctx):
    F = ctx.F
    w = ctx.fn("shared::entity_serde::serialize_entity")
    r = ctx.fn("shared::entity_serde::deserialize_entity")
    ws = codec_sequence(F, w, "postcard_utils::to_extend_mut")
    rs = codec_sequence(F, r, "postcard_utils::from_buf")
    wt = [(t, bool(g)) for (_, t, g) in ws]
    rt = [(t, bool(g)) for (_, t, g) in rs]
    ctx.check(wt == rt and len(wt) >= 1, "field-sequence", site_of(w),
              "writer emits %s but reader consumes %s (type, conditional?)" % (wt, rt),
              "writer and reader agree on %s" % wt)
    # presence flag of every conditional field travels in an unconditional earlier field
    wtr, rtr = tracer(w), tracer(r)
    for idx, (bb, ty, guards) in enumerate(ws):
        if not guards:
            continue
        first_uncond = next(((b2, t2) for (b2, t2, g2) in ws if not g2), None)
        if first_uncond is None:
            ctx.bad("writer-flag/%d" % idx, site_of(w, bb), "no unconditional field could carry the presence flag")
            continue
        val = w.blocks[first_uncond[0]].term["args"][0]
        carried = _dep_stmts(w, val)
        ok = False
        for (sbb, cond, outs) in guards:
            sw = w.blocks[sbb].term
            for o in wtr.operand(sw["discr"]):
                if o.kind == "stmt" and o.data in carried:
                    ok = True
        ctx.check(ok, "writer-flag/%s" % ty, site_of(w, bb),
                  "the condition under which the optional `%s` is written does not flow into the first written value: "
                  "the reader cannot know whether the field is present" % ty,
                  "presence condition flows into the first written field")
    for idx, (bb, ty, guards) in enumerate(rs):
        if not guards:
            continue
        first = next((b2 for (b2, t2, g2) in rs if not g2), None)
        ok = False
        for (sbb, cond, outs) in guards:
            sw = r.blocks[sbb].term
            for o in deep_origins(r, sw["discr"]):
                if o.kind == "call" and o.data == first:
                    ok = True
        ctx.check(ok, "reader-flag/%s" % ty, site_of(r, bb),
                  "the condition under which the optional `%s` is read is not derived from the first decoded value" % ty,
                  "presence condition derived from the first decoded field")
    # the reader consumes from the same cursor in every call
    roots = set()
    for (bb, ty, g) in rs:
        roots |= {(o.kind, o.data) for o in rtr.operand(r.blocks[bb].term["args"][0])}
    ctx.check(roots == {("param", 1)}, "reader-cursor", site_of(r), "decoder reads from something other than its message parameter: %s" % roots,
              "all reads consume the `message` parameter")


def _dep_stmts(body, op, seen=None, depth=0):
    tr = tracer(body)
    seen = seen if seen is not None else set()
    for o in tr.operand(op):
        if o.kind == "stmt" and o.data not in seen and depth < 14:
            seen.add(o.data)
            rv = body.blocks[o.data[0]].stmts[o.data[1]]["rvalue"]
            subs = []
            if rv["rv"] == "bin":
                subs = [rv["a"], rv["b"]]
            elif rv["rv"] == "un":
                subs = [rv["a"]]
            elif rv["rv"] in ("cast", "repeat"):
                subs = [rv["op"]]
            elif rv["rv"] == "agg":
                subs = rv["ops"]
            for s in subs:
                _dep_stmts(body, s, seen, depth + 1)
    return seen


def r3_cursor(ctx):
    F = ctx.F
    impl_methods = [b for p, b in F.fns.items() if "BufFlavor" in p and "Flavor" in (b.j.get("impl_trait") or "")]
    if len(impl_methods) < 3:
        ctx.bad("anchor", "", "BufFlavor's deserialisation-flavor impl not found", kind="anchor-missing")
        return
    for b in impl_methods:
        edges = list(panics.panic_edges(b))
        ctx.check(not edges, "%s/total" % short(b.path), site_of(b),
                  "cursor primitive can panic: %s" % [short(e["what"]) for e in edges])
    take = [b for b in impl_methods if b.path.endswith("::try_take_n")]
    if not take:
        ctx.bad("anchor/try_take_n", "", "try_take_n not found", kind="anchor-missing")
        return
    b = take[0]
    tr = tracer(b)
    adv = [(bb, t) for bb, t in b.calls() if callee_decl(t).endswith("Buf::advance")]
    raw = [(bb, t) for bb, t in b.calls() if callee_decl(t).endswith("slice::from_raw_parts") or callee_decl(t).endswith("slice::raw::from_raw_parts")]
    cp = [(bb, t) for bb, t in b.calls() if callee_decl(t).endswith("Buf::copy_to_slice") or callee_decl(t).endswith("Buf::copy_to_bytes")]
    if adv and raw:
        a_bb, a_t = adv[0]
        r_bb, r_t = raw[0]
        same = tr.operand(a_t["args"][1]) == tr.operand(r_t["args"][1])
        ctx.check(same, "try_take_n/advance-equals-slice-len", site_of(b, a_bb),
                  "the cursor is advanced by a different amount than the slice handed to the deserializer")
        ctx.check(panics.count_is_guarded(b, r_bb, r_t["args"][1]), "try_take_n/slice-len-guarded", site_of(b, r_bb),
                  "slice of `ct` bytes is created without a dominating `remaining() >= ct` check")
        ctx.check(len(adv) == 1, "try_take_n/single-advance", site_of(b), "cursor advanced %d times" % len(adv))
    elif cp:
        ctx.ok("try_take_n/copying", site_of(b), "uses a copying accessor")
    else:
        ctx.bad("try_take_n/shape", site_of(b), "neither advance+from_raw_parts nor a copying accessor found", kind="anchor-missing")


def r4_bit_layout(ctx):
    """Round trip of the packed representation: no operation of the codec drops set bits (bit-width analysis), and the
    writer's and the reader's layout constants agree (shift amounts, flag mask, generation offset and default)."""
    import bitwidth
    F = ctx.F
    w = ctx.fn("shared::entity_serde::serialize_entity")
    r = ctx.fn("shared::entity_serde::deserialize_entity")
    n = 0
    for body in (w, r):
        lossy = {(bb, i): (k, msg) for (bb, i, k, msg) in bitwidth.lossy_ops(body)}
        ordinal = {}
        for bb, i, st in body.statements():
            if st["s"] != "assign":
                continue
            rv = st["rvalue"]
            kind = None
            if rv["rv"] == "bin" and rv["op"] in ("Shl", "ShlUnchecked", "Shr", "ShrUnchecked"):
                kind = rv["op"].replace("Unchecked", "").lower()
            elif rv["rv"] == "cast" and rv.get("kind") == "IntToInt" and rv["op"].get("k") != "const":
                kind = "cast-to-" + rv.get("ty", "?")
            if kind is None:
                continue
            n += 1
            ordinal[kind] = ordinal.get(kind, 0) + 1
            key = "%s/lossless/%s#%d" % (short(body.path), kind, ordinal[kind])
            bad = lossy.get((bb, i))
            ctx.check(bad is None, key, "%s (%s)" % (body.path, st.get("span", body.span)),
                      "%s: an entity whose value uses those bits does not survive the round trip" % (bad[1] if bad else ""))
    if n < 4:
        ctx.bad("lossless/sites", site_of(w), "only %d shift/cast operations found in the entity codec" % n, kind="anchor-missing")

    # the reader accepts every value the writer can produce: a range test on a decoded field must not cut into the writer's range
    rseq = codec_sequence(F, r, "postcard_utils::from_buf")
    wseq = codec_sequence(F, w, "postcard_utils::to_extend_mut")
    oks = [bb for bb, i, st in r.statements() if st["s"] == "assign" and st["place"] == {"l": 0, "p": []} and st["rvalue"]["rv"] == "agg" and st["rvalue"].get("variant") == "Ok"]
    rtr = tracer(r)
    WW = bitwidth.Widths(w)
    if oks and rseq and wseq:
        for (sb, c, o) in required_outcomes(F, r, oks[0]):
            if c["kind"] != "cmp" or len(o) != 1 or next(iter(o)) not in (True, False):
                continue
            rel, x, y = cmp_facts(c, next(iter(o)))
            for (val_side, k_side, flipped) in ((x, y, False), (y, x, True)):
                if k_side.get("k") != "const" or not isinstance(k_side.get("val"), int):
                    continue
                src = rtr.operand(val_side)
                idx = [n_ for n_, (rb, ty, g) in enumerate(rseq) if any(o2.kind == "call" and o2.data == rb and all(e[0] == "U" for e in o2.path) for o2 in src)]
                if not idx or idx[0] >= len(wseq):
                    continue
                wbits = WW.bits(w.blocks[wseq[idx[0]][0]].term["args"][0])
                # the written operand is a reference to the value: look through it
                wmax = (1 << min(wbits, 64)) - 1 if wbits else None
                for o3 in tracer(w).operand(w.blocks[wseq[idx[0]][0]].term["args"][0]):
                    pass
                kv = k_side["val"]
                # accepted values on the path to Ok(..): val REL k (or k REL val when flipped)
                if not flipped:
                    accepts_all = (rel == "<=" and kv >= wmax) or (rel == "<" and kv > wmax) or rel == "!="
                else:
                    accepts_all = (rel == "<=" and kv <= 0) or (rel == "<" and kv < 0) or rel == "!="
                ctx.check(accepts_all, ctx.nth("layout/reader-accepts-writer-range"), site_of(r, sb),
                          "the reader only accepts field %d when it is %s %d, but the writer produces values up to %d (%d significant bits): such an entity is encoded fine and "
                          "rejected on decoding" % (idx[0], rel if not flipped else "at least", kv, wmax, wbits), "bound %d vs writer max %d" % (kv, wmax))

    def consts_of(body, pred):
        out = []
        for bb, i, st in body.statements():
            if st["s"] == "assign" and st["rvalue"]["rv"] == "bin" and pred(st["rvalue"]):
                for side in ("a", "b"):
                    o = st["rvalue"][side]
                    if o.get("k") == "const" and isinstance(o.get("val"), int):
                        out.append(o["val"])
        return out
    shl = set(consts_of(w, lambda rv: rv["op"] in ("Shl", "ShlUnchecked")))
    shr = set(consts_of(r, lambda rv: rv["op"] in ("Shr", "ShrUnchecked")))
    # the reader shifts the generation into the high half by the width of the index: not part of the wire layout
    shr_wire = shr
    ctx.check(len(shl) == 1 and shl == shr_wire, "layout/index-shift", site_of(r),
              "the writer shifts the index left by %s, the reader shifts it right by %s" % (sorted(shl), sorted(shr_wire)), "shift %s" % sorted(shl))
    masks = set(consts_of(r, lambda rv: rv["op"] == "BitAnd"))
    if shl:
        k = next(iter(shl))
        ctx.check(masks == {(1 << k) - 1}, "layout/flag-mask", site_of(r), "the reader masks the flag with %s, the writer leaves %d low bit(s) for it" % (sorted(masks), k), "mask %s" % sorted(masks))
    # generation offset: writer subtracts c, reader adds c back
    sub = set(consts_of(w, lambda rv: rv["op"] in ("Sub", "SubWithOverflow", "SubUnchecked")))
    add = set()
    for bb, t in r.calls():
        if callee_decl(t).endswith("checked_add") or callee_decl(t).endswith("wrapping_add") or callee_decl(t).endswith("saturating_add"):
            for a in t["args"][1:]:
                if a.get("k") == "const" and isinstance(a.get("val"), int):
                    add.add(a["val"])
    add |= set(consts_of(r, lambda rv: rv["op"] in ("Add", "AddWithOverflow", "AddUnchecked")))
    ctx.check(len(sub) == 1 and sub == add, "layout/generation-offset", site_of(r), "the writer subtracts %s from the generation, the reader adds %s" % (sorted(sub), sorted(add)), "offset %s" % sorted(sub))
    # absent generation: writer omits it when generation <= t, reader substitutes the default d; generations are non-zero, so d must be t
    thr, thr_op = set(), []
    wtr = tracer(w)
    for _, _, st in w.statements():
        if st["s"] == "assign" and st["rvalue"]["rv"] == "bin" and st["rvalue"]["op"] in ("Gt", "Ge", "Lt", "Le", "Eq", "Ne"):
            rv = st["rvalue"]
            if any(o.kind == "call" and callee_decl(w.blocks[o.data].term).endswith("Entity::generation") for side in ("a", "b") for o in wtr.operand(rv[side])):
                thr_op.append(rv["op"])
                thr |= {rv[side]["val"] for side in ("a", "b") if rv[side].get("k") == "const" and isinstance(rv[side].get("val"), int)}
    defaults = set()
    for bb, i, st in r.statements():
        if st["s"] == "assign" and st["rvalue"]["rv"] == "use" and st["rvalue"]["op"].get("k") == "const" and st["rvalue"]["op"].get("ty") == "u32" and isinstance(st["rvalue"]["op"].get("val"), int):
            defaults.add(st["rvalue"]["op"]["val"])
    ok = len(thr) == 1 and len(defaults) == 1 and thr_op in (["Gt"], ["Ne"]) and thr == defaults
    ctx.check(ok, "layout/absent-generation-default", site_of(r),
              "the writer omits the generation unless it is `%s %s`, the reader substitutes %s when it is absent" % (thr_op, sorted(thr), sorted(defaults)),
              "omitted iff generation == %s" % sorted(defaults))


RULES = [
    ("C15.R1", "decoding arbitrary bytes never panics (no panic edge reachable from deserialize_entity)", r1_totality, 4, None),
    ("C15.R2", "writer and reader agree on the field sequence and on how the optional field's presence is signalled", r2_symmetry, 4, None),
    ("C15.R3", "the deserialisation flavor advances the cursor by exactly what it hands out, under a length guard", r3_cursor, 5, None),
    ("C15.R4", "bit layout: no packing operation drops set bits; writer and reader agree on shift, mask, generation offset and default", r4_bit_layout, 8, None),
]
THOROUGH_CONFIGS = ["default", "all-features", "server-only", "client-only"]
