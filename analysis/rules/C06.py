"""C06 - No client input can crash or exhaust the server.

Decided clause: in server code that is control- or data-dependent on anything a client
sent there is no panic edge and no allocation sized by unvalidated client data, decode
errors are logged and dropped, and a bad message never terminates the drain loop (which
would discard the other clients' messages of that frame)."""
import re

from callgraph import callgraph
from engine import site_of
from facts import callee_decl, callee_name
from flow import tracer, short
import panics

EXPLANATION = (
    "Static taint-region analysis over MIR. Entry points are discovered (every caller of "
    "RepliconServer::receive, every drain of Events<FromClient<_>>, every observer taking "
    "Trigger<FromClient<_>>). The client-controlled region is the part of each entry point dominated by "
    "the source call plus, transitively through the call graph (direct calls, closures, fn items, "
    "fn-pointer slots resolved by a points-to analysis, serde call-backs into local impls), the whole "
    "body of every callee. Inside the region every panic edge (failing Assert terminator, diverging call, "
    "call into the may-panic API table) and every allocation sized by a non-length value is a violation "
    "unless whitelisted by (function, callee) with a reason.")
NOT_DECIDED = "that the server keeps serving every client *correctly* afterwards (behaviour); user-supplied (de)serialisers; panics inside dependencies beyond the may-panic API table"
TRUSTED_BASE = [
    "total APIs: postcard::Deserializer on any input, Buf::try_get_*, hash-map operations, Events::send, Commands::*, Query::get_mut (returns Result)",
    "may-panic API table in verif/analysis/panics.py",
]
ASSUMPTIONS = [
    "choosing the channel id of an incoming message is the transport's job (RepliconServer::insert_received panics on unregistered ids and is outside the region)",
]

# (function path suffix, callee-or-kind substring) -> reason. An unused entry is reported.
WHITELIST = [
    ("UntypedEventFns::typed", "assert_failed",
     "debug_assert_eq! on TypeIds fixed at registration time; operands are not derived from message bytes"),
]

OTHER_CTX = ("ClientReceiveCtx", "ClientSendCtx", "ServerSendCtx", "WriteCtx", "SerializeCtx", "RemoveCtx", "DespawnCtx")


def _is_test(path):
    return "::tests::" in path or "::test_app::" in path or "test_fns" in path


def discover_entries(ctx):
    """-> list of (body, source_bb or None, kind)"""
    F = ctx.F
    out = []
    for body in F.real_fns():
        if body.crate != "bevy_replicon" or _is_test(body.path):
            continue
        if "RepliconServer" in body.path:
            continue
        for bb, t in body.calls():
            decl = callee_decl(t)
            if decl.endswith("RepliconServer::receive"):
                out.append((body, bb, "receive"))
            elif decl.endswith("::drain") and "Events" in decl:
                a = t["callee"].get("args", [])
                if a and a[0].startswith("bevy_replicon::shared::event::client_event::FromClient<"):
                    out.append((body, bb, "drain-from-client"))
        if body.kind in ("Fn", "AssocFn"):
            ins = body.j.get("inputs", [])
            if any(("Trigger<" in i or "EventReader<" in i) and "FromClient<" in i for i in ins):
                out.append((body, None, "from-client-handler"))
    return out


def build_region(ctx):
    entries = discover_entries(ctx)
    region = panics.close_region(ctx.F, [(b, bb, kind) for (b, bb, kind) in entries], OTHER_CTX, _is_test)
    return entries, region


def _wl(body, what):
    for (fn_sfx, sub, reason) in WHITELIST:
        root = body.j.get("closure_root", body.path)
        if (body.path.endswith(fn_sfx) or root.endswith(fn_sfx) or fn_sfx in body.path) and sub in what:
            return (fn_sfx, sub)
    return None


def r1_panic_edges(ctx):
    entries, region = build_region(ctx)
    ctx.region = region
    used = set()
    if len(entries) < 4:
        ctx.bad("entries", "", "only %d client-input entry points discovered (expected the 2 receive loops, the "
                "protocol observer and the trigger drain)" % len(entries), kind="anchor-missing")
    for p, (blocks, how) in sorted(region.items()):
        body = ctx.F.fns[p]
        edges = list(panics.panic_edges(body, blocks))
        if not edges:
            ctx.ok("%s/no-panic-edge" % short(p), site_of(body), "in region via %s; 0 panic edges" % how)
            continue
        for e in edges:
            w = _wl(body, e["what"])
            key = "%s/%s" % (short(p), short(e["what"]))
            if w:
                used.add(w)
                ctx.ok(key + "/whitelisted", site_of(body, e["bb"]), "whitelisted: " + [r for (a, b, r) in WHITELIST if (a, b) == w][0])
                continue
            ctx.bad(key, site_of(body, e["bb"]),
                    "panic edge reachable with client-controlled data: %s %s (function in region via %s)" % (
                        e["kind"], short(e["what"]) + (" [" + e["why"] + "]" if e.get("why") else ""), how),
                    detail={"macros": e["macros"]})
    for (a, b, r) in WHITELIST:
        if (a, b) not in used:
            ctx.note("whitelist entry (%s, %s) unused on this tree" % (a, b))


def r2_bounded_alloc(ctx):
    entries, region = build_region(ctx)
    n = 0
    for p, (blocks, how) in sorted(region.items()):
        body = ctx.F.fns[p]
        for bb, decl, size in panics.sized_allocations(body, blocks):
            n += 1
            key = "%s/%s" % (short(p), short(decl))
            if panics.size_is_bounded(body, size):
                ctx.ok(key, site_of(body, bb), "size is a constant / length of received data / min(_, length)")
            else:
                tr = tracer(body)
                ctx.bad(key, site_of(body, bb),
                        "allocation sized by a value that may come from the message without a bound: %s(size <- %s)" % (
                            short(decl), ", ".join(sorted(tr.describe(o) for o in tr.operand(size)))))
    ctx.ok("region/allocation-sites-scanned", "", "%d sized allocation site(s) in %d region functions" % (n, len(region)))


def r3_error_discipline(ctx):
    """Decode errors are logged and dropped: no `?`/early exit leaves the drain loop of an entry point."""
    entries, region = build_region(ctx)
    for body, src_bb, kind in entries:
        if src_bb is None:
            # handler: must not propagate an error out (a fallible observer's Err is a panic in Bevy's default handler)
            prop = [bb for bb, t in body.calls() if callee_decl(t).endswith("FromResidual::from_residual")]
            ctx.check(not prop, "%s/no-error-propagation" % short(body.path), site_of(body),
                      "handler of client data propagates an error with `?` (Bevy's default error handler panics)")
            continue
        blocks = region[body.path][0]
        # outermost loop inside the region that iterates the drain
        loops = [(h, bs) for (h, bs) in body.loops() if h in blocks]
        outer = None
        for h, bs in loops:
            if not any(h in bs2 and h2 != h for (h2, bs2) in loops):
                outer = (h, bs) if outer is None or len(bs) > len(outer[1]) else outer
        if outer is None:
            ctx.bad("%s/drain-loop" % short(body.path), site_of(body), "no loop over the received messages found", kind="anchor-missing")
            continue
        h, bs = outer
        # exits of the loop: edges a->t with a in bs, t not in bs
        bad_exits = []
        for a in bs:
            for (t, lab) in body.succ[a]:
                if t in bs:
                    continue
                # allowed: the block that switches on the result of Iterator::next (None arm)
                if _is_next_switch(body, a):
                    continue
                # diverging paths are panic edges, covered by R1
                bad_exits.append((a, t))
        ctx.check(not bad_exits, "%s/loop-exits-only-on-exhaustion" % short(body.path), site_of(body, h),
                  "the loop over received client messages can be left early (blocks %s): a malformed message from one "
                  "client would discard the remaining messages of every client" % bad_exits,
                  "loop header bb%d, %d blocks, only exit is iterator exhaustion" % (h, len(bs)))
        prop = [bb for bb, t in body.calls() if bb in blocks and callee_decl(t).endswith("FromResidual::from_residual")]
        ctx.check(not prop, "%s/no-error-propagation" % short(body.path), site_of(body),
                  "entry point propagates an error derived from client data with `?`")


def _is_next_switch(body, bb):
    t = body.blocks[bb].term
    if t["t"] != "switch":
        return False
    c = switch_cond_cached(body, bb)
    if c and c["kind"] == "variant":
        tr = tracer(body)
        for o in tr.place(c["place"]):
            if o.kind == "call" and callee_decl(body.blocks[o.data].term).endswith("Iterator::next"):
                return True
    return False


def switch_cond_cached(body, bb):
    from flow import switch_cond
    return switch_cond(body, bb)



def r4_dead_client_messages(ctx):
    """Bytes of a client whose entity is gone never reach the server's handlers: handlers issue commands on the sender entity
    (`commands.entity(client).insert(AuthorizedClient)`), which panic in the command queue for a despawned entity - a panic no
    panic-edge analysis of the handler sees. Structural guarantee: removing a client purges its queued messages (same rule as C09.R2)."""
    import rules.C09 as C09
    C09.removed_client_purge(ctx)


def r20_unconditional_mutators(ctx):
    """Mutators this property relies on always perform their effect (shared table in rules/mutators.py)."""
    import rules.mutators as mutators
    mutators.run_for(ctx, "C06")


RULES = [
    ("C06.R1", "no panic edge in the client-controlled region", r1_panic_edges, 15, None),
    ("C06.R2", "no allocation sized by unvalidated client data", r2_bounded_alloc, 1, None),
    ("C06.R3", "decode errors are dropped without leaving the drain loop or propagating", r3_error_discipline, 4, None),
    ("C06.R4", "messages of a removed client are purged before any handler sees them (handlers issue commands on the sender entity)", r4_dead_client_messages, 3, ["default", "all-features", "server-only"]),
    ("C06.R20", "mutators this property relies on always perform their effect (rules/mutators.py): no early return, no guard outside the allowed set", r20_unconditional_mutators, 1, ["default", "all-features"]),
]
THOROUGH_CONFIGS = ["default", "all-features", "server-only"]
