"""Fact extraction: runs the rustc_private driver over /repo's current working tree.

Facts are cached under /verif/.cache/facts/<hash>/<config>/ where <hash> covers every
*.rs / Cargo.toml / Cargo.lock under /repo (outside target/ and .git/) and the driver
binary, so every check reflects the working tree and consecutive checks share one
extraction.  A lock file serialises concurrent extractions.
"""
import fcntl
import hashlib
import os
import shutil
import subprocess
import sys
import time

VERIF = os.path.dirname(os.path.dirname(os.path.abspath(__file__)))
REPO = os.environ.get("REPLICON_REPO", "/repo")
CACHE = os.path.join(VERIF, ".cache")
DRIVER_DIR = os.path.join(VERIF, "driver")
DRIVER = os.path.join(DRIVER_DIR, "target", "release", "replicon-facts-driver")
CRATES = ["bevy_replicon", "bevy_replicon_example_backend"]

# name -> (cargo args, extra --config args)
CONFIGS = {
    "default": (["--workspace", "--lib"], []),
    "all-features": (["--workspace", "--lib", "--all-features"], []),
    "server-only": (["-p", "bevy_replicon", "--lib", "--no-default-features", "--features", "server"], []),
    "client-only": (["-p", "bevy_replicon", "--lib", "--no-default-features", "--features", "client"], []),
}


class ExtractError(Exception):
    pass


def _sha_file(h, path):
    with open(path, "rb") as f:
        h.update(f.read())


def tree_hash(repo=REPO):
    h = hashlib.sha256()
    entries = []
    for root, dirs, files in os.walk(repo):
        dirs[:] = sorted(d for d in dirs if d not in ("target", ".git"))
        for fn in sorted(files):
            if fn.endswith(".rs") or fn in ("Cargo.toml", "Cargo.lock"):
                entries.append(os.path.join(root, fn))
    for p in entries:
        h.update(os.path.relpath(p, repo).encode())
        h.update(b"\0")
        _sha_file(h, p)
    if os.path.exists(DRIVER):
        _sha_file(h, DRIVER)
    for p in (os.path.join(DRIVER_DIR, "src", "main.rs"), os.path.join(DRIVER_DIR, "src", "json.rs")):
        _sha_file(h, p)
    return h.hexdigest()[:20], len(entries)


def sysroot_lib():
    out = subprocess.run(["rustc", "+nightly", "--print", "sysroot"], capture_output=True, text=True)
    if out.returncode != 0:
        raise ExtractError("nightly toolchain not available: " + out.stderr)
    return os.path.join(out.stdout.strip(), "lib")


def build_driver():
    src_m = max(os.path.getmtime(os.path.join(DRIVER_DIR, "src", f)) for f in ("main.rs", "json.rs"))
    if os.path.exists(DRIVER) and os.path.getmtime(DRIVER) >= src_m:
        return
    env = dict(os.environ, CARGO_NET_OFFLINE="true")
    env.pop("RUSTFLAGS", None)
    env.pop("RUSTC_WORKSPACE_WRAPPER", None)
    r = subprocess.run(["cargo", "build", "--release", "--offline"], cwd=DRIVER_DIR, env=env,
                       capture_output=True, text=True)
    if r.returncode != 0 or not os.path.exists(DRIVER):
        raise ExtractError("driver build failed:\n" + r.stderr[-4000:])


def _run_cargo(config, facts_dir, repo, target_dir):
    cargo_args, _ = CONFIGS[config]
    # Force cargo to re-run the wrapper for the members (never replay a stale result).
    fp = os.path.join(target_dir, "debug", ".fingerprint")
    if os.path.isdir(fp):
        for d in os.listdir(fp):
            if d.startswith("bevy_replicon-") or d.startswith("bevy_replicon_example_backend-"):
                shutil.rmtree(os.path.join(fp, d), ignore_errors=True)
    env = dict(os.environ)
    env.update({
        "LD_LIBRARY_PATH": sysroot_lib() + ":" + env.get("LD_LIBRARY_PATH", ""),
        "CARGO_NET_OFFLINE": "true",
        "RUSTFLAGS": "-Zmir-opt-level=0 -Awarnings",
        "RUSTC_WORKSPACE_WRAPPER": DRIVER,
        "REPLICON_FACTS_DIR": facts_dir,
        "CARGO_TARGET_DIR": target_dir,
    })
    cmd = ["cargo", "+nightly", "check", "--offline"] + cargo_args
    r = subprocess.run(cmd, cwd=repo, env=env, capture_output=True, text=True)
    return r


def ensure_facts(config="default", repo=REPO, quiet=False):
    """Returns (facts_dir, info). Raises ExtractError when /repo does not compile or the driver fails."""
    os.makedirs(CACHE, exist_ok=True)
    lock = open(os.path.join(CACHE, "lock"), "w")
    fcntl.flock(lock, fcntl.LOCK_EX)
    try:
        build_driver()
        h, nfiles = tree_hash(repo)
        facts_dir = os.path.join(CACHE, "facts", h, config)
        want = CRATES if config in ("default", "all-features") else CRATES[:1]
        done_marker = os.path.join(facts_dir, "DONE")
        info = {"hash": h, "source_files_hashed": nfiles, "config": config, "cached": True}
        if os.path.exists(done_marker) and all(os.path.exists(os.path.join(facts_dir, c + ".json")) for c in want):
            try:
                os.utime(os.path.dirname(facts_dir))  # mark as recently used (see _prune)
            except OSError:
                pass
            return facts_dir, info
        info["cached"] = False
        if os.path.isdir(facts_dir):
            shutil.rmtree(facts_dir)
        os.makedirs(facts_dir)
        t = time.time()
        target_dir = os.path.join(CACHE, "target")
        r = _run_cargo(config, facts_dir, repo, target_dir)
        info["extract_s"] = round(time.time() - t, 1)
        if r.returncode != 0:
            raise ExtractError("cargo check failed on /repo (does the tree compile?):\n" + r.stderr[-6000:])
        missing = [c for c in want if not os.path.exists(os.path.join(facts_dir, c + ".json"))]
        if missing:
            raise ExtractError("driver produced no facts for %s:\n%s" % (missing, r.stderr[-3000:]))
        open(done_marker, "w").write(str(time.time()))
        _prune()
        return facts_dir, info
    finally:
        fcntl.flock(lock, fcntl.LOCK_UN)
        lock.close()


def _prune(keep=40, min_age=1800):
    """Removes old cache entries; never one that was used within the last half hour (another check may be reading it)."""
    root = os.path.join(CACHE, "facts")
    ds = [os.path.join(root, d) for d in os.listdir(root)]
    ds.sort(key=os.path.getmtime, reverse=True)
    now = time.time()
    for d in ds[keep:]:
        try:
            newest = max([os.path.getmtime(d)] + [os.path.getmtime(os.path.join(d, x)) for x in os.listdir(d)])
        except OSError:
            continue
        if now - newest > min_age:
            shutil.rmtree(d, ignore_errors=True)


if __name__ == "__main__":
    cfg = sys.argv[1] if len(sys.argv) > 1 else "default"
    try:
        d, info = ensure_facts(cfg)
    except ExtractError as e:
        print("CHECKER-ERROR", e)
        sys.exit(2)
    print(d, info)
