"""Bit-width (value range as a number of significant bits) analysis for integer packing code.

`Widths(body).bits(operand)` is an upper bound on the number of significant bits of an unsigned integer value,
flow-insensitively (max over all definitions of a local). `lossy_ops(body)` lists the operations that can drop set bits:
a left shift by a constant whose operand may already use the top bits, and an integer cast to a narrower type whose operand
may not fit."""
from facts import callee_decl

TYW = {"u8": 8, "u16": 16, "u32": 32, "u64": 64, "u128": 128, "usize": 64, "i8": 8, "i16": 16, "i32": 32, "i64": 64, "i128": 128, "isize": 64, "bool": 1, "char": 21}


def ty_width(ty):
    ty = (ty or "").strip()
    while ty.startswith("&"):
        ty = ty[1:].strip()
        if ty.startswith("mut "):
            ty = ty[4:].strip()
    return TYW.get(ty)


class Widths:
    def __init__(self, body):
        self.b = body
        self.defs = {}
        for bb, i, s in body.statements():
            if s["s"] == "assign" and not s["place"]["p"]:
                self.defs.setdefault(s["place"]["l"], []).append(("stmt", bb, i, s["rvalue"]))
        for bb, t in body.calls():
            d = t.get("dest")
            if d and not d["p"]:
                self.defs.setdefault(d["l"], []).append(("call", bb, None, t))
        self.memo = {}
        self.busy = set()

    def local_ty(self, l):
        return self.b.locals[l]["ty"]

    def bits(self, op):
        if op.get("k") == "const":
            v = op.get("val")
            w = ty_width(op.get("ty", ""))
            if isinstance(v, bool):
                return 1
            if isinstance(v, int) and v >= 0:
                return v.bit_length()
            return w if w is not None else 128
        pl = op["place"]
        l = pl["l"]
        if pl["p"]:
            # a field / tuple element: its declared type
            ty = pl["p"][-1].get("ty") if isinstance(pl["p"][-1], dict) else None
            if ty and ty_width(ty) is not None:
                # (x, overflow) tuples of checked arithmetic: element 0 has the width of the operation
                return ty_width(ty)
            return 128
        return self.local_bits(l)

    def local_bits(self, l):
        if l in self.memo:
            return self.memo[l]
        w = ty_width(self.local_ty(l))
        if w is None:
            return 128
        if l in self.busy:
            return 0
        ds = self.defs.get(l)
        if not ds or l <= self.b.j.get("arg_count", 0) and l != 0:
            self.memo[l] = w
            return w
        self.busy.add(l)
        res = 0
        for (k, bb, i, x) in ds:
            res = max(res, min(w, self.rv_bits(x, w) if k == "stmt" else self.call_bits(x, w)))
        self.busy.discard(l)
        if not self.busy:
            self.memo[l] = res
        return res

    def call_bits(self, t, w):
        d = callee_decl(t)
        if d in ("core::convert::From::from", "core::convert::Into::into") and len(t["args"]) == 1:
            return min(w, self.bits(t["args"][0]))
        return w

    def rv_bits(self, rv, w):
        k = rv["rv"]
        if k == "use":
            return self.bits(rv["op"])
        if k == "cast":
            if rv.get("kind") == "IntToInt":
                return min(self.bits(rv["op"]), ty_width(rv.get("ty", "")) or w)
            return w
        if k == "bin":
            op = rv["op"]
            a, b = self.bits(rv["a"]), self.bits(rv["b"])
            if op in ("Shl", "ShlUnchecked"):
                kv = rv["b"].get("val") if rv["b"].get("k") == "const" else None
                return min(w, a + kv) if isinstance(kv, int) else w
            if op in ("Shr", "ShrUnchecked"):
                kv = rv["b"].get("val") if rv["b"].get("k") == "const" else None
                return max(0, a - kv) if isinstance(kv, int) else a
            if op in ("BitOr", "BitXor"):
                return max(a, b)
            if op == "BitAnd":
                return min(a, b)
            if op in ("Add", "AddUnchecked", "AddWithOverflow"):
                return min(w, max(a, b) + 1)
            if op in ("Sub", "SubUnchecked", "SubWithOverflow", "Div", "Rem"):
                return min(w, a)
            if op in ("Lt", "Le", "Gt", "Ge", "Eq", "Ne"):
                return 1
            return w
        if k == "ref":
            pl = rv.get("place") or {}
            if all(e == "deref" for e in pl.get("p", [])):
                return self.local_bits(pl["l"])
            return w
        if k == "un":
            return w
        return w


def lossy_ops(body):
    """-> list of (bb, stmt index, description) for operations that may drop set bits."""
    W = Widths(body)
    out = []
    for bb, i, s in body.statements():
        if s["s"] != "assign":
            continue
        rv = s["rvalue"]
        if s["place"]["p"]:
            continue
        w = ty_width(body.locals[s["place"]["l"]]["ty"])
        if w is None:
            continue
        if rv["rv"] == "bin" and rv["op"] in ("Shl", "ShlUnchecked") and rv["b"].get("k") == "const" and isinstance(rv["b"].get("val"), int):
            a = W.bits(rv["a"])
            kv = rv["b"]["val"]
            if a + kv > w:
                out.append((bb, i, "shl", "a value of up to %d significant bits is shifted left by %d in a %d-bit type: the top %d bit(s) are dropped" % (a, kv, w, a + kv - w)))
        if rv["rv"] == "cast" and rv.get("kind") == "IntToInt":
            a = W.bits(rv["op"])
            tw = ty_width(rv.get("ty", "")) or w
            if a > tw:
                out.append((bb, i, "narrowing-cast", "a value of up to %d significant bits is cast to a %d-bit type" % (a, tw)))
    return out
