"""C07 - Unauthorized clients get no replication and only independent events."""
from engine import site_of
from facts import callee_decl, callee_name
from flow import tracer, short, required_outcomes, dep_closure, is_next_switch
from schedule import schedule
from callgraph import callgraph
import rules.C14 as C14
import rules.C05 as C05

EXPLANATION = (
    "R1: closed, classified table of every RepliconServer::send call site in the workspace. R2: the replication sites are "
    "reachable only from send_replication, whose client query demands components that are crate-private, are inserted "
    "nowhere explicitly and are required only by AuthorizedClient; the recipient passed to send is the query item itself. "
    "R3: every dependent-event send is dominated by the `Some` edge of that client's Option<&ClientTicks> and uses those "
    "ticks; the `None` edge sends nothing. R4: send_independent_event is control-dependent on `self.independent`, whose only "
    "writers are the make_*_independent registrations (and the constructor's `false`). R5 = C14.R4 (handshake). R6: first-sight completeness (rules/first_sight.py): a client that does not hold an entity yet is written "
    "every replicated component - no skip between the component iteration and the per-client pass, insertion on every path from the unknown-entity outcome.")
NOT_DECIDED = "that the bytes of the first full send decode to the server's values (fidelity of user serialisers); completeness is decided structurally by R6 only"
TRUSTED_BASE = ["Bevy queries yield only entities that have every non-optional component of the query", "required components are inserted together with the requiring component"] + C14.TRUSTED_BASE

SEND = "bevy_replicon::shared::backend::replicon_server::RepliconServer::send"
SITE_CLASS = {
    "bevy_replicon::server::replication_messages::updates::Updates::send": "replication",
    "bevy_replicon::server::replication_messages::mutations::Mutations::send": "replication",
    "bevy_replicon::shared::event::server_event::BufferedServerEvent::send": "dependent-event",
    "bevy_replicon::shared::event::server_event::ServerEvent::send_independent_event": "independent-event",
}
PRIVATE_COMPONENTS = ["bevy_replicon::server::replication_messages::updates::Updates",
                      "bevy_replicon::server::replication_messages::mutations::Mutations"]
AUTH = "bevy_replicon::server::AuthorizedClient"


def _is_test(p):
    return "::tests::" in p or "::test_app::" in p


def send_sites(F):
    out = []
    for b in F.real_fns():
        if _is_test(b.path):
            continue
        for bb, t in b.calls():
            if callee_decl(t) == SEND:
                out.append((b, bb, t))
    return out


def r1_send_sites(ctx):
    sites = send_sites(ctx.F)
    for b, bb, t in sites:
        root = b.j.get("closure_root", b.path)
        cls = SITE_CLASS.get(root)
        ctx.check(cls is not None, "%s/classified" % short(root), site_of(b, bb),
                  "unclassified RepliconServer::send call site: every place that puts bytes on the wire for a client must be "
                  "gated by that client's authorization (or be an independent event)", cls)


def r2_replication(ctx):
    F = ctx.F
    S = schedule(F)
    cg = callgraph(F)
    sr = ctx.fn("server::send_replication")
    for adt in PRIVATE_COMPONENTS:
        a = ctx.adt(adt)
        ctx.check(a["vis"] != "pub", "%s/crate-private" % short(adt), adt, "the component type is public: downstream code could insert it on an unauthorized client")
        req = [r for r in S.required if r["required"] == adt]
        ctx.check(len(req) >= 1 and all(r["component"] == AUTH for r in req), "%s/required-only-by-AuthorizedClient" % short(adt), "",
                  "required by %s" % [short(r["component"]) for r in req])
        ins = []
        for b in F.real_fns():
            if _is_test(b.path):
                continue
            for bb, t in b.calls():
                d = callee_decl(t)
                if d.rsplit("::", 1)[-1] in ("insert", "spawn", "insert_if_new", "try_insert", "insert_batch", "spawn_batch", "insert_by_id") \
                        and any(adt in a_ for a_ in t["callee"].get("args", [])):
                    ins.append(b.path)
        ctx.check(not ins, "%s/never-inserted-explicitly" % short(adt), "", "explicit insertions in %s" % ins)
    # the query of send_replication demands those components (non-optional)
    qs = [i for i in sr.j["inputs"] if "Query<" in i]
    ok = any(all("&mut " + c in q for c in PRIVATE_COMPONENTS) and "Option<&mut " + PRIVATE_COMPONENTS[0] not in q for q in qs)
    ctx.check(ok, "send_replication/query-demands-authorized-components", site_of(sr), "the client query does not require Updates and Mutations")
    # reachability: the replication send sites are only reachable (through the call graph) from send_replication among systems
    systems = {e["path"] for e in S.systems} | {o["handler"] for o in S.observers}
    for target in [k for k, v in SITE_CLASS.items() if v == "replication"]:
        roots = set()
        seen = set()
        work = [target]
        while work:
            p = work.pop()
            if p in seen:
                continue
            seen.add(p)
            if p in systems:
                roots.add(p)
                continue
            callers = [cb.j.get("closure_root", cb.path) for (cb, cbb, k) in cg.callers_of(p) if not _is_test(cb.path)]
            if not callers:
                roots.add(p)
            work += callers
        ctx.check(roots == {sr.path}, "%s/reachable-only-from-send_replication" % short(target), "",
                  "replication data can be sent from %s" % sorted(short(r) for r in roots), "roots: %s" % sorted(short(r) for r in roots))
    # recipient identity: in send_messages the client entity passed to send() is the same query item as the buffers
    sm = ctx.fn("server::send_messages")
    tr = tracer(sm, follow_next=False)
    for name in ("updates::Updates::send", "mutations::Mutations::send"):
        calls = [(bb, t) for bb, t in sm.calls() if callee_decl(t).endswith(name)]
        for bb, t in calls:
            recv = {(o.kind, o.data) for o in tr.operand(t["args"][0])}
            cli = {(o.kind, o.data) for o in tr.operand(t["args"][2])}
            ctx.check(bool(recv & cli), "send_messages/%s-recipient-is-buffer-owner" % name.split("::")[1], site_of(sm, bb),
                      "the message buffer of one client is sent to a different client entity")
    for name in ("updates::Updates::send", "mutations::Mutations::send"):
        b = ctx.fn(name)
        btr = tracer(b)
        for bb, t in b.calls():
            if callee_decl(t) == SEND:
                o = btr.operand(t["args"][1])
                ctx.check(bool(o) and all(x.kind == "param" for x in o), "%s/sends-to-given-client" % short(b.path), site_of(b, bb), "recipient is not the function's client parameter")


def r3_dependent_events(ctx):
    F = ctx.F
    sa = ctx.fn("BufferedServerEvents::send_all")
    tr = tracer(sa, follow_next=False)
    sends = [(bb, t) for bb, t in sa.calls() if callee_decl(t).endswith("BufferedServerEvent::send")]
    ctx.check(len(sends) >= 3, "send_all/send-sites", site_of(sa), "expected a send per SendMode arm, found %d" % len(sends))
    for bb, t in sends:
        ticks = tr.operand(t["args"][3])
        client = tr.operand(t["args"][2])
        g = required_outcomes(F, sa, bb)
        on_some = False
        for (sbb, c, o) in g:
            if c["kind"] == "variant" and o == {"Some"} and not is_next_switch(sa, c):
                src = {(x.kind, x.data) for x in tr.place(c["place"])}
                if src & {(x.kind, x.data) for x in ticks}:
                    on_some = True
        arm = C05._mode_arm(F, sa, bb) if hasattr(C05, "_mode_arm") else None
        arm = arm or "send"
        ctx.check(on_some, ctx.nth("send_all/%s/guarded-by-ticks-Some" % arm), site_of(sa, bb),
                  "a dependent server event is sent to a client without checking that the client has tick state (i.e. is authorized)")
        same = {(x.kind, x.data) for x in ticks} & {(x.kind, x.data) for x in client}
        ctx.check(bool(same), ctx.nth("send_all/%s/ticks-belong-to-recipient" % arm), site_of(sa, bb), "the ticks used to stamp the event belong to a different client than the recipient")
    # the sender stamps with the recipient's update tick and sends to the given client
    bs = ctx.fn("BufferedServerEvent::send")
    btr = tracer(bs)
    for bb, t in bs.calls():
        if callee_decl(t) == SEND:
            o = btr.operand(t["args"][1])
            ctx.check(bool(o) and all(x.kind == "param" and x.data == 3 for x in o), "BufferedServerEvent::send/sends-to-given-client", site_of(bs, bb), "recipient is not the client_entity parameter")
    # send_buffered's query makes ticks optional *only* there; the Option must come from the query
    sb = ctx.fn("server::event::send_buffered")
    q = [i for i in sb.j["inputs"] if "Query<" in i]
    ctx.check(any("Option<&" in x and "ClientTicks" in x for x in q), "send_buffered/ticks-optional-in-query", site_of(sb), "query: %s" % q)


def r4_independent(ctx):
    F = ctx.F
    sob = ctx.fn("ServerEvent::send_or_buffer_typed")
    tr = tracer(sob)
    calls = [(bb, t) for bb, t in sob.calls() if callee_decl(t).endswith("ServerEvent::send_independent_event")]
    ctx.check(len(calls) == 1, "send_or_buffer/independent-site", site_of(sob), "%d call sites" % len(calls))
    for bb, t in calls:
        ok = False
        for (sbb, c, o) in required_outcomes(F, sob, bb):
            d = tr.operand(sob.blocks[sbb].term["discr"])
            if any(x.path and x.path[-1][0] == "f" and x.path[-1][2] == "independent" for x in d) and o == {True}:
                ok = True
        ctx.check(ok, "send_or_buffer/independent-only-when-flagged", site_of(sob, bb), "an event bypasses buffering/authorization without being marked independent")
    bufs = [(bb, t) for bb, t in sob.calls() if callee_decl(t).endswith("ServerEvent::buffer_event")]
    for bb, t in bufs:
        ok = False
        for (sbb, c, o) in required_outcomes(F, sob, bb):
            d = tr.operand(sob.blocks[sbb].term["discr"])
            if any(x.path and x.path[-1][0] == "f" and x.path[-1][2] == "independent" for x in d) and o == {False}:
                ok = True
        ctx.check(ok, "send_or_buffer/dependent-events-buffered", site_of(sob, bb), "buffering is not the `!independent` branch")
    # writers of `independent`
    writers = []
    for b in F.real_fns():
        if _is_test(b.path):
            continue
        for bb, i, s in b.statements():
            if s["s"] == "assign" and s["place"]["p"]:
                last = s["place"]["p"][-1]
                if isinstance(last, dict) and last.get("name") == "independent" and last.get("adt") == C14.SERVER_EVENT:
                    writers.append((b, bb))
            if s["s"] == "assign" and s["rvalue"]["rv"] == "agg" and s["rvalue"].get("adt") == C14.SERVER_EVENT:
                idx = s["rvalue"]["fields"].index("independent")
                v = s["rvalue"]["ops"][idx]
                ctx.check(v.get("k") == "const" and v.get("val") == 0, "%s/constructed-dependent" % short(b.path), site_of(b, bb), "ServerEvent is constructed with independent != false")
    for b, bb in writers:
        ok = b.path.endswith("make_event_independent") or b.path.endswith("make_trigger_independent")
        hashed = any(callee_decl(t).startswith(C14.HASHER + "::make_") for _, t in b.calls())
        ctx.check(ok and hashed, "%s/writes-independent" % short(b.path), site_of(b, bb), "`independent` is written outside the hashed make_*_independent registrations")
    f = [x for x in F.adt_fields(C14.SERVER_EVENT) if x["name"] == "independent"]
    ctx.check(f and f[0]["vis"] != "pub", "ServerEvent.independent/not-public", C14.SERVER_EVENT, "field is public")
    # the marked entry is looked up in the collection of its own kind only: an event registration can never mark a trigger of the
    # same type independent or vice versa (a type may be registered as both)
    REG = "bevy_replicon::shared::event::remote_event_registry::RemoteEventRegistry"

    def registry_fields(body, depth=0, seen=None):
        seen = seen if seen is not None else set()
        if body.path in seen or depth > 4:
            return set()
        seen.add(body.path)
        out = set()

        def scan(x):
            if isinstance(x, dict):
                if x.get("adt") == REG and "name" in x and "f" in x:
                    out.add(x["name"])
                for v in x.values():
                    scan(v)
            elif isinstance(x, list):
                for v in x:
                    scan(v)
        for blk in body.blocks:
            if blk.idx not in body.reach:
                continue
            scan(blk.stmts)
            scan(blk.term)
        for _, t in body.calls():
            cb = F.fns.get(callee_decl(t)) or F.fns.get(callee_name(t))
            if cb is not None and cb.path.startswith(REG):
                out |= registry_fields(cb, depth + 1, seen)
        for cb in F.closures_of(body.path):
            out |= registry_fields(cb, depth + 1, seen)
        return out
    want = {"make_event_independent": {"server_events"}, "make_trigger_independent": {"server_triggers"}}
    for b, bb in writers:
        kind = b.path.rsplit("::", 1)[-1]
        if kind in want:
            got = registry_fields(b)
            ctx.check(got == want[kind], "%s/marks-own-kind-only" % short(b.path), site_of(b, bb),
                      "`%s` looks the entry to mark up in %s (expected %s only): for a type registered both as event and as trigger the wrong one becomes independent and "
                      "bypasses the authorization gate" % (kind, sorted(got), sorted(want[kind])), "looks up in %s" % sorted(got))


def r5_handshake(ctx):
    before = len(ctx.instances)
    C14.r4_handshake(ctx)


def r7_hash_separates(ctx):
    """`a client whose protocol differs is never authorized` needs the two hashes to differ: every registration feeds the hasher on
    every path with its own method and part (C14.R1 + C14.R2)."""
    C14.r1_must_hash(ctx)
    C14.r2_hasher_methods(ctx)


from rules.first_sight import r_first_sight

def r20_unconditional_mutators(ctx):
    """Mutators this property relies on always perform their effect (shared table in rules/mutators.py)."""
    import rules.mutators as mutators
    mutators.run_for(ctx, "C07")


RULES = [
    ("C07.R1", "every RepliconServer::send call site is classified (replication / dependent event / independent event)", r1_send_sites, 6, ["default", "all-features", "server-only"]),
    ("C07.R2", "replication reaches only clients holding the crate-private authorized components", r2_replication, 10, ["default", "all-features", "server-only"]),
    ("C07.R3", "dependent events are sent only on the Some edge of the recipient's tick state", r3_dependent_events, 8, ["default", "all-features", "server-only"]),
    ("C07.R4", "only events marked independent bypass the authorization gate", r4_independent, 5, ["default", "all-features", "server-only"]),
    ("C07.R5", "handshake: authorized exactly on equal hashes; mismatch notifies and disconnects (same rule as C14.R4)", r5_handshake, 10, ["default", "all-features"]),
    ("C07.R6", "first-sight completeness: a client that does not hold an entity yet (just authorized, just spawned, visibility gained) is sent every replicated component", r_first_sight, 14, ["default", "all-features", "server-only"]),
    ("C07.R7", "registrations that differ hash differently: every registration feeds the hasher with a distinct method/part (same rules as C14.R1, C14.R2)", r7_hash_separates, 40, ["default", "all-features"]),
    ("C07.R20", "mutators this property relies on always perform their effect (rules/mutators.py): no early return, no guard outside the allowed set", r20_unconditional_mutators, 2, ["default", "all-features"]),
]
THOROUGH_CONFIGS = ["default", "all-features", "server-only"]
